"""Runner: shard obligations over worker processes, merge, write evidence."""

from __future__ import annotations

import argparse
import dataclasses
import importlib
import json
import os
import subprocess
import sys
import tempfile
import time

VERIF = os.path.dirname(os.path.dirname(os.path.abspath(__file__)))
PY = os.path.join(VERIF, ".venv", "bin", "python")


def load(pid):
    return importlib.import_module(f"verif.props.{pid.lower()}")


def worker(pid, tier, shard, nshards, out, only=None):
    os.environ.setdefault("JAX_PLATFORMS", "cpu")
    from . import engine

    seed = int(os.environ.get("VERIF_SEED", "0"))
    mod = load(pid)
    obs = mod.obligations(tier, seed)
    known = engine.load_known()
    results = []
    for i, ob in enumerate(obs):
        if i % nshards != shard:
            continue
        if only and only not in ob.name:
            continue
        t0 = time.time()
        try:
            if hasattr(ob, "run"):
                r = ob.run(pid, known)
            else:
                r = engine.decide(ob, pid, known)
        except Exception as e:  # noqa: BLE001
            import traceback

            r = engine.Result(name=ob.name, verdict="error", detail=f"decide crashed: {type(e).__name__}: {e}\n" + traceback.format_exc()[-1500:])
        r.ms = (time.time() - t0) * 1e3
        d = dataclasses.asdict(r)
        d["note"] = getattr(ob, "note", "")
        d["index"] = i
        results.append(d)
        with open(out, "w") as f:
            json.dump(results, f, default=str)
    with open(out, "w") as f:
        json.dump(results, f, default=str)


def main(argv=None):
    ap = argparse.ArgumentParser()
    ap.add_argument("pid")
    ap.add_argument("path", nargs="?")
    ap.add_argument("--tier", default=os.environ.get("VERIF_TIER", "quick"))
    ap.add_argument("--workers", type=int, default=int(os.environ.get("VERIF_WORKERS", "0")))
    ap.add_argument("--only", default=None)
    ap.add_argument("--worker", default=None)  # "i/n:outfile"
    ap.add_argument("-v", action="store_true")
    a = ap.parse_args(argv)
    if a.pid == "replay":
        return replay(a.path)
    if a.worker:
        sh, out = a.worker.split(":", 1)
        i, n = map(int, sh.split("/"))
        worker(a.pid, a.tier, i, n, out, a.only)
        return 0
    return drive(a.pid, a.tier, a.workers, a.only, a.v)


def count_obligations(pid, tier):
    code = f"import sys; sys.path.insert(0, {VERIF!r}); from verif.run import load; import os; print('N=', len(load({pid!r}).obligations({tier!r}, int(os.environ.get('VERIF_SEED','0')))))"
    env = dict(os.environ, JAX_PLATFORMS="cpu")
    out = subprocess.run([PY, "-c", code], capture_output=True, text=True, env=env, cwd=VERIF)
    for line in out.stdout.splitlines():
        if line.startswith("N="):
            return int(line.split()[1])
    raise RuntimeError("cannot enumerate obligations:\n" + out.stdout[-2000:] + out.stderr[-3000:])


def drive(pid, tier, workers, only, verbose):
    t0 = time.time()
    seed = int(os.environ.get("VERIF_SEED", "0"))
    subprocess.run([os.path.join(VERIF, "vsetup")], check=True, stdout=subprocess.DEVNULL)
    n = count_obligations(pid, tier)
    ncpu = os.cpu_count() or 4
    nw = workers or max(1, min(ncpu, n, 16))
    tmp = tempfile.mkdtemp(prefix=f"vcheck-{pid}-", dir=os.environ.get("VERIF_SCRATCH", None))
    procs = []
    env = dict(os.environ, JAX_PLATFORMS="cpu", XLA_FLAGS="--xla_cpu_multi_thread_eigen=false intra_op_parallelism_threads=1",
               OMP_NUM_THREADS="1", PYTHONWARNINGS="ignore", TF_CPP_MIN_LOG_LEVEL="3")
    for i in range(nw):
        out = os.path.join(tmp, f"w{i}.json")
        cmd = [PY, "-m", "verif.run", pid, "--tier", tier, "--worker", f"{i}/{nw}:{out}"]
        if only:
            cmd += ["--only", only]
        log = open(os.path.join(tmp, f"w{i}.log"), "w")
        procs.append((subprocess.Popen(cmd, cwd=VERIF, env=env, stdout=log, stderr=subprocess.STDOUT), out, log))
    results = []
    crashed = []
    for i, (p, out, log) in enumerate(procs):
        rc = p.wait()
        log.close()
        if os.path.exists(out):
            results += json.load(open(out))
        if rc != 0:
            crashed.append((i, rc, open(log.name).read()[-2000:]))
    results.sort(key=lambda r: r["index"])
    import shutil

    mod_meta = subprocess.run([PY, "-c", f"import sys, json; sys.path.insert(0, {VERIF!r}); from verif.run import load; m = load({pid!r}); print('META=' + json.dumps(dict(level=getattr(m,'LEVEL','model_checking'), bounds=getattr(m,'BOUNDS',{{}}), assumptions=getattr(m,'ASSUMPTIONS',[]), outside=getattr(m,'OUTSIDE',[]))))"],
                              capture_output=True, text=True, env=env, cwd=VERIF)
    meta = {}
    for line in mod_meta.stdout.splitlines():
        if line.startswith("META="):
            meta = json.loads(line[5:])
    rc = report(pid, tier, seed, results, crashed, n if not only else len(results), meta, time.time() - t0, verbose)
    shutil.rmtree(tmp, ignore_errors=True)
    return rc


GLOBAL_ASSUMPTIONS = [
    "float model: float32 values are mathematical reals; rounding, overflow, NaN/inf arithmetic are outside the claim",
    "int32 values are unbounded integers (no wrap-around)",
    "PRNG contract: distinct key-derivation paths (seed/fold_in/split) give independent streams; jax.random leaf samplers are uninterpreted functions of their key",
    "transcendental functions (log, exp, lgamma, erf...) are uninterpreted with congruence; identical constants fold identically on both sides",
    "structure (program, addresses, shapes, request kinds, history shape) is enumerated up to the stated bounds; values are universally quantified by the solver",
]


def report(pid, tier, seed, results, crashed, expected, meta, wall, verbose):
    from . import engine

    evdir = os.environ.get("VERIF_EVIDENCE_DIR") or os.path.join(VERIF, "evidence")
    os.makedirs(evdir, exist_ok=True)
    violations, known_lines, inconclusive = [], [], []
    for r in results:
        v = r["verdict"]
        if v == "unsat":
            if r.get("known"):
                known_lines.append(r)
            continue
        if v in ("sat", "raised") and r.get("reproduced"):
            if r.get("known"):
                known_lines.append(r)
            else:
                violations.append(r)
        else:
            inconclusive.append(r)
    missing = expected - len(results)
    fns = sorted({f for r in results for f in r.get("functions", [])})
    prims = sorted({f for r in results for f in r.get("prims", [])})
    qcount = {}
    for r in results:
        for q in r.get("queries", []):
            qcount[q["verdict"]] = qcount.get(q["verdict"], 0) + 1
    nontrivial = len({r["name"] for r in results if r.get("nontrivial", 0) > 0})
    samples = []
    for r in results[:6] + [r for r in results if r["verdict"] != "unsat"][:4]:
        samples.append({k: r.get(k) for k in ("name", "note", "verdict", "mode", "n_eqns", "leaves", "nontrivial", "assumptions", "queries", "detail", "cex", "known", "ms", "selfcheck")})
    level = meta.get("level", "model_checking")
    cov = {
        "evaluations": len(results),
        "distinct_nontrivial": nontrivial,
        "rule": "one evaluation = one proof obligation (a real GenJAX callable traced to a jaxpr from /repo's current source, symbolically executed, negated property sent to z3); non-trivial = the compared outputs contain symbolic input terms (not constants); distinct = distinct obligation names (program x operation x structure)",
        "samples": samples,
        "programs": len({r["name"].split("/")[-1] for r in results}),
        "disagreements_checked": sum(1 for r in results if r["verdict"] in ("sat", "raised")),
        "states": sum(r.get("n_eqns", 0) for r in results) or 1,
        "transitions": sum(len(r.get("queries", [])) for r in results) or 1,
        "traces_validated_against_impl": sum(1 for r in results if r.get("selfcheck") == "ok"),
        "obligations_by_verdict": {v: sum(1 for r in results if r["verdict"] == v) for v in sorted({r["verdict"] for r in results})},
        "queries_by_verdict": qcount,
        "solver": "z3 " + _z3v(),
        "solver_time_s": round(sum(r.get("solver_s", 0) for r in results), 3),
        "jaxpr_equations_encoded": sum(r.get("n_eqns", 0) for r in results),
        "functions_encoded": fns,
        "primitives_encoded": prims,
        "uf_fallbacks": sorted({f for r in results for f in r.get("uf_fallbacks", [])}),
        "unwinding_assertions": sum(r.get("unwinding", 0) for r in results),
        "bounds": meta.get("bounds", {}),
        "outside_claim": meta.get("outside", []),
        "known_findings_matched": [{"obligation": r["name"], "finding": r["known"], "detail": r["detail"][:300]} for r in known_lines],
        "inconclusive": [{"obligation": r["name"], "verdict": r["verdict"], "detail": r["detail"][:400]} for r in inconclusive],
        "missing_results": missing,
        "exhaustive": False,
        "explanation": "bounded symbolic model checking of jaxprs produced by the real code; see DESIGN.md",
    }
    ev = {
        "property_id": pid,
        "tier": tier if tier in ("quick", "thorough") else "quick",
        "seed": seed,
        "level": level,
        "coverage": cov,
        "assumptions": GLOBAL_ASSUMPTIONS + meta.get("assumptions", []),
        "wall_s": round(wall, 2),
        "violations": len(violations),
    }
    with open(os.path.join(evdir, f"{pid}.json"), "w") as f:
        json.dump(ev, f, indent=1, default=str)
    # ---- console
    for r in results:
        if verbose or r["verdict"] != "unsat":
            print(f"  [{r['verdict']:7s}] {r['name']}  ({r.get('mode','')}, {r.get('n_eqns',0)} eqns, {round(r.get('ms',0))} ms) {r.get('detail','')[:300]}")
    for r in known_lines:
        print(f"KNOWN-FINDING: property={pid} {r['known']}: {r['name']}: {r['detail'][:200]}")
    rc = 0
    for r in violations:
        ob = type("O", (), {"name": r["name"]})
        path = engine.write_replay(pid, ob, r.get("cex") or {}, r.get("detail", ""))
        print(f"VIOLATION property={pid} replay={path}")
        rc = 1
    if rc == 0 and (inconclusive or crashed or missing):
        for i, c, tail in crashed:
            print(f"worker {i} exited {c}:\n{tail}")
        print(f"INCONCLUSIVE property={pid}: {len(inconclusive)} obligations undecided, {missing} missing, {len(crashed)} workers crashed")
        rc = 2
    print(f"{pid} [{tier}] obligations={len(results)} unsat={sum(1 for r in results if r['verdict']=='unsat')} violations={len(violations)} known={len(known_lines)} inconclusive={len(inconclusive)} wall={wall:.1f}s")
    return rc


def _z3v():
    try:
        import z3

        return z3.get_version_string()
    except Exception:  # noqa: BLE001
        return "?"


def replay(path):
    os.environ.setdefault("JAX_PLATFORMS", "cpu")
    from . import engine

    d = json.load(open(path))
    pid = d["property"]
    mod = load(pid)
    obs = [o for tier in ("quick", "thorough") for o in mod.obligations(tier, 0) if o.name == d["obligation"]]
    if not obs:
        print("obligation not found:", d["obligation"])
        return 2
    ob = obs[0]
    if hasattr(ob, "replay"):
        return ob.replay(d)
    import jax
    import jax.numpy as jnp
    import numpy as np

    leaves_p, treedef = jax.tree_util.tree_flatten_with_path(ob.args)
    new = []
    for path_, leaf in leaves_p:
        base = "a" + jax.tree_util.keystr(path_).replace("[", "_").replace("]", "").replace("'", "").replace(".", "_")
        if engine.J.is_key_dtype(getattr(leaf, "dtype", np.float32)):
            new.append(leaf)
            continue
        arr = np.array(leaf)
        for idx in np.ndindex(*arr.shape):
            nm = base if arr.shape == () else f"{base}_{'_'.join(map(str, idx))}"
            if nm in d["inputs"]:
                arr[idx] = d["inputs"][nm]
        new.append(jnp.asarray(arr, dtype=np.asarray(leaf).dtype))
    args = jax.tree_util.tree_unflatten(treedef, new)
    differs, detail = engine.replay_concrete(ob, args)
    print("inputs:", d["inputs"])
    print("REPRODUCED" if differs else "not reproduced", detail)
    return 1 if differs else 0


if __name__ == "__main__":
    sys.path.insert(0, VERIF)
    sys.exit(main())
