"""E2: Python-AST -> z3 translation of the Selection algebra (from the current source of choice_map.py).

The value classes (AllSel, NoneSel, LeafSel, ComplementSel, StaticSel, AndSel, OrSel) become one algebraic datatype `Sel`;
their `check`, `get_subselection` and `build` methods are translated statement by statement into z3 (recursive) functions.
Address components are Ints (>= 0: a string of an unbounded alphabet; -1: the `...` wildcard).  Anything outside the supported
AST subset raises CannotEncode (inconclusive, never a pass).
"""

from __future__ import annotations

import ast
import inspect
import textwrap

import z3

ELLIPSIS = -1


class CannotEncode(Exception):
    pass


CLASSES = ["AllSel", "NoneSel", "LeafSel", "ComplementSel", "StaticSel", "AndSel", "OrSel"]


class Model:
    def __init__(self, cm_module):
        self.mod = cm_module
        self.fields = {}
        for c in CLASSES:
            cls = getattr(cm_module, c)
            import dataclasses

            self.fields[c] = [f.name for f in dataclasses.fields(cls)] if dataclasses.is_dataclass(cls) else []
        Sel = z3.Datatype("Sel")
        for c in CLASSES:
            args = []
            for f in self.fields[c]:
                args.append((f"{c}_{f}", z3.IntSort() if f == "addr" else Sel))
            Sel.declare(c, *args)
        self.Sel = Sel = Sel.create()
        self.check = z3.RecFunction("check", Sel, z3.BoolSort())
        self.sub = z3.RecFunction("sub", Sel, z3.IntSort(), Sel)
        self.depth = z3.RecFunction("depth", Sel, z3.IntSort())
        self.encoded = []
        self._define()

    # ---- helpers
    def ctor(self, c):
        return getattr(self.Sel, c)

    def is_(self, c, t):
        return getattr(self.Sel, "is_" + c)(t)

    def acc(self, c, f, t):
        return getattr(self.Sel, f"{c}_{f}")(t)

    def method_ast(self, cls, name):
        fn = getattr(getattr(self.mod, cls), name)
        src = textwrap.dedent(inspect.getsource(fn))
        tree = ast.parse(src)
        fd = tree.body[0]
        assert isinstance(fd, ast.FunctionDef)
        self.encoded.append(f"{cls}.{name}")
        return fd

    # ---- definition of the recursive functions from source
    def _define(self):
        s = z3.Const("s!", self.Sel)
        a = z3.Int("a!")
        # smart constructors first (non-recursive z3 builders implemented as python closures over terms)
        self._build_asts = {c: self.method_ast(c, "build") for c in ("ComplementSel", "StaticSel", "AndSel", "OrSel")}
        chk = None
        sb = None
        for c in reversed(CLASSES):
            cb = self.translate_method(c, "check", {"self": (s, c)})
            sbody = self.translate_method(c, "get_subselection", {"self": (s, c), "addr": (a, None)})
            chk = cb if chk is None else z3.If(self.is_(c, s), cb, chk)
            sb = sbody if sb is None else z3.If(self.is_(c, s), sbody, sb)
        z3.RecAddDefinition(self.check, [s], chk)
        z3.RecAddDefinition(self.sub, [s, a], sb)
        d = None
        for c in reversed(CLASSES):
            kids = [self.depth(self.acc(c, f, s)) for f in self.fields[c] if f != "addr"]
            body = z3.IntVal(0) if not kids else 1 + (kids[0] if len(kids) == 1 else z3.If(kids[0] >= kids[1], kids[0], kids[1]))
            d = body if d is None else z3.If(self.is_(c, s), body, d)
        z3.RecAddDefinition(self.depth, [s], d)

    def build(self, c, *args):
        """ClassName.build(*args) translated from source, applied to z3 terms."""
        fd = self._build_asts[c]
        params = [p.arg for p in fd.args.args]
        env = {p: (t, None) for p, t in zip(params, args)}
        return self.stmts(fd.body, env)

    def translate_method(self, cls, name, env):
        fd = self.method_ast(cls, name)
        return self.stmts(fd.body, dict(env))

    # ---- statements: return / if / match / assignment; value of a block = z3 term
    def stmts(self, body, env):
        body = [b for b in body if not (isinstance(b, ast.Expr) and isinstance(b.value, ast.Constant))]  # docstrings
        if not body:
            raise CannotEncode("block without return")
        st, rest = body[0], body[1:]
        if isinstance(st, ast.Return):
            return self.expr(st.value, env)
        if isinstance(st, ast.Assign) and len(st.targets) == 1 and isinstance(st.targets[0], ast.Name):
            env = dict(env)
            env[st.targets[0].id] = (self.expr(st.value, env), None)
            return self.stmts(rest, env)
        if isinstance(st, ast.If):
            c = self.expr(st.test, env)
            then = self.stmts(st.body + rest, env) if not _returns(st.body) else self.stmts(st.body, env)
            other = self.stmts((st.orelse or []) + rest, env)
            return z3.If(c, then, other)
        if isinstance(st, ast.Match):
            subj = self.expr(st.subject, env) if not isinstance(st.subject, ast.Tuple) else tuple(self.expr(e, env) for e in st.subject.elts)
            result = None
            for case in reversed(st.cases):
                cond, env2 = self.pattern(case.pattern, subj, env)
                if case.guard is not None:
                    cond = z3.And(cond, self.expr(case.guard, env2))
                val = self.stmts(case.body + rest, env2)
                if result is None:
                    if not z3.is_true(z3.simplify(cond)):
                        raise CannotEncode("match without a wildcard last case")
                    result = val
                else:
                    result = z3.If(cond, val, result)
            return result
        raise CannotEncode(f"statement {ast.dump(st)[:80]}")

    def pattern(self, p, subj, env):
        if isinstance(p, ast.MatchAs) and p.pattern is None:
            env = dict(env)
            if p.name is not None:
                env[p.name] = (subj, None)
            return z3.BoolVal(True), env
        if isinstance(p, ast.MatchClass) and isinstance(p.cls, ast.Name) and not p.kwd_patterns:
            c = p.cls.id
            if c not in CLASSES:
                raise CannotEncode(f"class pattern {c}")
            if len(p.patterns) > len(self.fields[c]):
                raise CannotEncode(f"too many positional sub-patterns for {c}")
            conds = [self.is_(c, subj)]
            for fld, sp in zip(self.fields[c], p.patterns):  # match_args=True dataclasses: positional patterns follow field order
                cc, env = self.pattern(sp, self.acc(c, fld, subj), env)
                conds.append(cc)
            return z3.And(*conds) if len(conds) > 1 else conds[0], env
        if isinstance(p, ast.MatchSequence) and isinstance(subj, tuple) and len(p.patterns) == len(subj):
            conds = []
            for pp, sj in zip(p.patterns, subj):
                c, env = self.pattern(pp, sj, env)
                conds.append(c)
            return z3.And(*conds), env
        raise CannotEncode(f"pattern {ast.dump(p)[:80]}")

    # ---- expressions
    def expr(self, e, env):
        S = self.Sel
        if isinstance(e, ast.Constant) and isinstance(e.value, bool):
            return z3.BoolVal(e.value)
        if isinstance(e, ast.Name):
            if e.id in env:
                return env[e.id][0]
            raise CannotEncode(f"name {e.id}")
        if isinstance(e, ast.Attribute) and isinstance(e.value, ast.Name) and e.value.id in env:
            t, cls = env[e.value.id]
            if cls is None:
                # attribute of a matched / local selection: resolve by field name over the classes that have it
                owners = [c for c in CLASSES if e.attr in self.fields[c]]
                if not owners:
                    raise CannotEncode(f"attribute {e.attr}")
                r = None
                for c in reversed(owners):
                    v = self.acc(c, e.attr, t)
                    r = v if r is None else z3.If(self.is_(c, t), v, r)
                return r
            if e.attr not in self.fields[cls]:
                raise CannotEncode(f"{cls}.{e.attr}")
            return self.acc(cls, e.attr, t)
        if isinstance(e, ast.UnaryOp) and isinstance(e.op, ast.Not):
            return z3.Not(self.expr(e.operand, env))
        if isinstance(e, ast.UnaryOp) and isinstance(e.op, ast.Invert):
            return self.build("ComplementSel", self.expr(e.operand, env))
        if isinstance(e, ast.BoolOp):
            vals = [self.expr(v, env) for v in e.values]
            return z3.And(*vals) if isinstance(e.op, ast.And) else z3.Or(*vals)
        if isinstance(e, ast.BinOp) and isinstance(e.op, (ast.BitAnd, ast.BitOr)):
            l, r = self.expr(e.left, env), self.expr(e.right, env)
            return self.build("AndSel" if isinstance(e.op, ast.BitAnd) else "OrSel", l, r)
        if isinstance(e, ast.Compare) and len(e.ops) == 1 and isinstance(e.ops[0], (ast.Eq, ast.NotEq)):
            l, r = self.expr(e.left, env), self.expr(e.comparators[0], env)
            return l == r if isinstance(e.ops[0], ast.Eq) else l != r
        if isinstance(e, ast.Call):
            f = e.func
            # isinstance(self.addr, EllipsisType)
            if isinstance(f, ast.Name) and f.id == "isinstance" and isinstance(e.args[1], ast.Name) and e.args[1].id == "EllipsisType":
                return self.expr(e.args[0], env) == ELLIPSIS
            # Selection.none() / all() / leaf()
            if isinstance(f, ast.Attribute) and isinstance(f.value, ast.Name) and f.value.id == "Selection" and f.attr in ("none", "all", "leaf") and not e.args:
                return {"none": S.NoneSel, "all": S.AllSel, "leaf": S.LeafSel}[f.attr]
            # X.build(...)
            if isinstance(f, ast.Attribute) and f.attr == "build" and isinstance(f.value, ast.Name) and f.value.id in self._build_asts:
                return self.build(f.value.id, *[self.expr(a_, env) for a_ in e.args])
            # ClassName(args): raw constructor
            if isinstance(f, ast.Name) and f.id in CLASSES:
                return self.ctor(f.id)(*[self.expr(a_, env) for a_ in e.args]) if e.args else self.ctor(f.id)
            # x.check()
            if isinstance(f, ast.Attribute) and f.attr == "check" and not e.args:
                return self.check(self.expr(f.value, env))
            # x.get_subselection(a)
            if isinstance(f, ast.Attribute) and f.attr == "get_subselection" and len(e.args) == 1:
                return self.sub(self.expr(f.value, env), self.expr(e.args[0], env))
            # s(addr): Selection.__call__ with a single component (the loop body of __call__ is get_subselection)
            if len(e.args) == 1 and not e.keywords:
                target = self.expr(f, env)
                if z3.is_expr(target) and target.sort() == self.Sel:
                    return self.sub(target, self.expr(e.args[0], env))
        raise CannotEncode(f"expression {ast.dump(e)[:100]}")

    # ---- Selection.__call__ / __getitem__ on an address of fixed length (components symbolic)
    def call(self, s, comps):
        self._check_call_source()
        for c in comps:
            s = self.sub(s, c)
        return s

    def member(self, s, comps):
        return self.check(self.call(s, comps))

    _call_ok = None

    def _check_call_source(self):
        """__call__ must be the loop `for comp in addr: subselection = subselection.get_subselection(comp)` and __getitem__
        `self(addr).check()`; otherwise the unrolling above does not represent the source."""
        if Model._call_ok is None:
            Selection = self.mod.Selection
            c = ast.dump(ast.parse(textwrap.dedent(inspect.getsource(Selection.__call__))))
            g = ast.dump(ast.parse(textwrap.dedent(inspect.getsource(Selection.__getitem__))))
            ok = ("For(" in c and "get_subselection" in c and c.count("get_subselection") == 1 and "Return(value=Name(id='subselection'" in c
                  and "attr='check'" in g and "Call(func=Name(id='self'" in g)
            ex = ast.dump(ast.parse(textwrap.dedent(inspect.getsource(Selection.extend))))
            ok = ok and "StaticSel" in ex and "reversed" in ex
            Model._call_ok = ok
            self.encoded += ["Selection.__call__", "Selection.__getitem__", "Selection.extend"]
        if not Model._call_ok:
            raise CannotEncode("Selection.__call__/__getitem__/extend no longer have the loop shape the unrolling assumes")

    def extend(self, s, comps):
        """Selection.extend(*comps): acc = StaticSel.build(acc, addr) for addr in reversed(addrs)"""
        self._check_call_source()
        for c in reversed(comps):
            s = self.build("StaticSel", s, c)
        return s


def _returns(body):
    return bool(body) and isinstance(body[-1], (ast.Return,))


# ---- ground terms <-> real Selection objects (translator validation and counterexample replay)


def to_real(mod, term):
    """z3 ground Sel value -> real Selection object (raw constructors, as the datatype denotes)."""
    name = term.decl().name()
    cls = getattr(mod, name)
    kids = [term.arg(i) for i in range(term.num_args())]
    if name in ("AllSel", "NoneSel", "LeafSel"):
        return cls()
    if name == "ComplementSel":
        return cls(to_real(mod, kids[0]))
    if name == "StaticSel":
        return cls(to_real(mod, kids[0]), comp_to_real(kids[1].as_long()))
    return cls(to_real(mod, kids[0]), to_real(mod, kids[1]))


def comp_to_real(i):
    return ... if i == ELLIPSIS else f"k{i}"


def from_real(M, sel, names):
    """real Selection object -> ground z3 Sel term; `names` maps string components to ints (extended on demand)."""
    cls = type(sel).__name__
    S = M.Sel
    if cls in ("AllSel", "NoneSel", "LeafSel"):
        return getattr(S, cls)
    if cls == "ComplementSel":
        return S.ComplementSel(from_real(M, sel.s, names))
    if cls == "StaticSel":
        a = ELLIPSIS if sel.addr is ... else names.setdefault(sel.addr, len(names))
        return S.StaticSel(from_real(M, sel.s, names), z3.IntVal(a))
    if cls in ("AndSel", "OrSel"):
        return getattr(S, cls)(from_real(M, sel.s1, names), from_real(M, sel.s2, names))
    raise CannotEncode(f"selection class {cls}")


_MODEL = {}


def get_model(cm_module):
    """one Model per process (z3 recursive functions can be defined once)"""
    k = id(cm_module)
    if k not in _MODEL:
        _MODEL[k] = Model(cm_module)
    return _MODEL[k]

