"""Regenerate MANIFEST.json from the table below (kept in one place)."""
import json, os

VERIF = os.path.dirname(os.path.dirname(os.path.abspath(__file__)))

TV = "translation_validation"
MC = "model_checking"

# pid: (category, technique, text, note, design_ref)
CHECKS = {
}

NOT_APPLICABLE = {
    "C21": "Diff/Pytree round trips have only Python object structure as input (treedefs, dataclass metadata, tag singletons); nothing value-level reaches a jaxpr or an SMT sort, so there is nothing for a solver to range over (DESIGN.md section 5).",
    "C22": "Addresses are Python strings resolved at trace time; AddressReuse/MissingAddress come from dict membership during tracing. The property has no value-level input and its code never reaches a jaxpr; CrossHair realises the strings at the first hash (DESIGN.md section 5).",
}


def main():
    from verif.checks_table import CHECKS as C
    checks = []
    for pid in sorted(C):
        cat, tech, text, note, ref = C[pid]
        checks.append({
            "property_id": pid,
            "quick_cmd": f"./vcheck {pid} --tier quick",
            "thorough_cmd": f"./vcheck {pid} --tier thorough",
            "evidence_file": f"/verif/evidence/{pid}.json",
            "replay_cmd_template": "./vcheck replay {path}",
            "engine": "E2" if pid in ("C18", "C33") else "E1",
            "level_claimed": {"category": cat, "text": text, "design_ref": ref},
            "level_note": note,
            "technique": tech,
        })
    na = dict(NOT_APPLICABLE)
    allp = [json.loads(l)["id"] for l in open(os.path.join(VERIF, "properties.jsonl"))]
    for p in allp:
        if p not in C and p not in na:
            na[p] = "not yet claimed: check under construction (see DESIGN.md)"
    m = {
        "version": 1,
        "setup_cmd": "./vsetup",
        "hooks": {
            "guard": "GENJAX_VERIF",
            "enable": "no source hooks are needed: checks observe the real code through jax.make_jaxpr / inspect.getsource on /repo's working tree",
            "baseline_off_cmd": "cd /repo && /venv/bin/python -m pytest -ra -q -p no:cacheprovider --timeout=900 --continue-on-collection-errors",
            "source_commits": [],
            "add_only": True,
        },
        "engines": [
            {"name": "E1", "path": "verif/jaxsmt.py", "serves_properties": [p for p in sorted(C) if p not in ("C18", "C33")],
             "kind_free_text": "symbolic execution of jaxprs (the IR the real GenJAX code leaves behind under jax.make_jaxpr) into z3 terms; negated property decided by z3; counterexamples replayed on the real code"},
            {"name": "E2", "path": "verif/pysel2smt.py", "serves_properties": [p for p in sorted(C) if p in ("C18", "C33")],
             "kind_free_text": "Python-AST -> z3 recursive-function translation of the Selection dataclasses from their current source"},
        ],
        "checks": checks,
        "not_applicable": [{"property_id": p, "reason": r} for p, r in sorted(na.items())],
        "notes": "Exit codes: 0 = all obligations unsat (or matched by known_findings.json); 1 = replayed counterexample (VIOLATION line); 2 = inconclusive (solver unknown / cannot encode / harness error) - never reported as a violation or a pass.",
    }
    json.dump(m, open(os.path.join(VERIF, "MANIFEST.json"), "w"), indent=1)
    print("claimed", len(checks), "n/a", len(na))


if __name__ == "__main__":
    import sys
    sys.path.insert(0, VERIF)
    main()
