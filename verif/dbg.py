"""Debug helper: python -m verif.dbg C05 'obligation name' [json-inputs] -> prints lhs/rhs leaves on concrete inputs."""
import json, sys, os
os.environ.setdefault("JAX_PLATFORMS", "cpu")
import jax, jax.numpy as jnp, numpy as np
from verif.run import load
from verif import engine

pid, name = sys.argv[1], sys.argv[2]
obs = [o for t in ("quick", "thorough") for o in load(pid).obligations(t, 0) if o.name == name]
ob = obs[0]
args = ob.args
if len(sys.argv) > 3:
    inputs = json.loads(sys.argv[3])
    leaves_p, treedef = jax.tree_util.tree_flatten_with_path(ob.args)
    new = []
    for path_, leaf in leaves_p:
        base = "a" + jax.tree_util.keystr(path_).replace("[", "_").replace("]", "").replace("'", "").replace(".", "_")
        if engine.J.is_key_dtype(getattr(leaf, "dtype", np.float32)):
            new.append(leaf); continue
        arr = np.array(leaf)
        for idx in np.ndindex(*arr.shape):
            nm = base if arr.shape == () else f"{base}_{'_'.join(map(str, idx))}"
            if nm in inputs:
                arr[idx] = inputs[nm]
        new.append(jnp.asarray(arr, dtype=np.asarray(leaf).dtype))
    args = jax.tree_util.tree_unflatten(treedef, new)
lhs, rhs = ob.fn(*args)
lp = jax.tree_util.tree_flatten_with_path(lhs)[0]
rl = jax.tree_util.tree_leaves(rhs)
for (p, a), b in zip(lp, rl):
    a, b = np.asarray(a), np.asarray(b)
    ok = np.allclose(a.astype(float), b.astype(float), atol=1e-4, equal_nan=True)
    print(("   " if ok else "!! ") + jax.tree_util.keystr(p), a, b)
