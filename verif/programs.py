"""Bounded program grammar: each Prog carries the real GenJAX program and an
independent reference denotation written in plain JAX (Python loops + TFP
log_prob), with no GenJAX combinator involved."""

from __future__ import annotations

from dataclasses import dataclass, field
from typing import Any, Callable

import jax
import jax.numpy as jnp
import genjax
from genjax import ChoiceMapBuilder as C
from genjax import Mask, gen
from tensorflow_probability.substrates import jax as tfp

tfd = tfp.distributions

IDX = "<idx>"  # marker: an index level (vmap / scan) inside an address


@dataclass
class Site:
    addr: tuple  # components: str or IDX
    batch: tuple  # sizes of the IDX levels, outermost first
    dist: str
    example: Any  # example value (full batched shape)

    @property
    def static_addr(self):
        return tuple(a for a in self.addr if a is not IDX)


@dataclass
class RefOut:
    score: Any
    retval: Any
    terms: list  # per site: log-density array of shape site.batch (0 where masked off)
    present: list  # per site: bool array of shape site.batch (or python True)


@dataclass
class Prog:
    name: str
    gf: Any
    args: tuple
    sites: list
    ref: Callable  # ref(args, vals) -> RefOut
    assume: Callable = lambda *a: []  # constraints over symbolic args
    supports: frozenset = frozenset({"update", "project"})
    depth: int = 1
    kind: str = "dist"
    meta: dict = field(default_factory=dict)

    # ---- choice map helpers -------------------------------------------
    def example_vals(self):
        return [s.example for s in self.sites]

    def val_assume(self, svals):
        """Support side conditions over symbolic choice values."""
        out = []
        for s, v in zip(self.sites, svals):
            if s.dist in ("categorical3", "categorical2"):
                hi = int(s.dist[-1]) - 1
                for e in v.reshape(-1):
                    out += [e >= 0, e <= hi]
        return out

    def chm(self, vals, subset=None, style="slice"):
        """Constraint choice map assigning vals[i] to site i (i in subset)."""
        out = C.n()
        for i, (s, v) in enumerate(zip(self.sites, vals)):
            if subset is not None and i not in subset:
                continue
            out = out | site_chm(s, v, style)
        return out

    def read(self, chm):
        """(value, flag) per site from a trace's / request's choice map."""
        return [read_site(chm, s) for s in self.sites]


def site_chm(s: Site, v, style="slice"):
    comps = []
    lvl = 0
    for a in s.addr:
        if a is IDX:
            if style == "slice":
                comps.append(slice(None))
            elif style == "arange":
                assert len(s.batch) == 1
                comps.append(jnp.arange(s.batch[lvl]))
            else:
                raise ValueError(style)
            lvl += 1
        else:
            comps.append(a)
    if not comps:
        return C.v(v)
    return C[tuple(comps)].set(v)


def read_site(chm, s: Site):
    sub = chm
    for a in s.static_addr:
        sub = sub.get_submap(a)
    v = sub.get_value()
    if v is None:
        return None, False
    if isinstance(v, Mask):
        return v.value, v.primal_flag()
    return v, True


def _f(x):
    return jnp.asarray(x, dtype=jnp.float32)


# --------------------------------------------------------------------------
# leaf distributions


def lp(dist, v, *params):
    if dist == "normal":
        return tfd.Normal(params[0], params[1]).log_prob(v)
    if dist == "flip":
        return tfd.Bernoulli(probs=params[0], dtype=jnp.bool_).log_prob(v)
    if dist == "categorical3":
        return tfd.Categorical(logits=params[0]).log_prob(v)
    if dist == "uniform":
        return tfd.Uniform(params[0], params[1]).log_prob(v)
    raise ValueError(dist)


_GJ = {"normal": genjax.normal, "flip": genjax.flip, "categorical3": genjax.categorical, "uniform": genjax.uniform}
_EX = {"normal": _f(0.3), "flip": jnp.array(True), "categorical3": jnp.int32(1), "uniform": _f(0.4)}
_ARGS = {"normal": (_f(0.5), _f(1.5)), "flip": (_f(0.3),), "categorical3": (jnp.array([0.1, -0.2, 0.4], jnp.float32),), "uniform": (_f(0.0), _f(2.0))}


# ---- optional recording of every leaf distribution the reference visits: (dist, parameter values, value, guard)
LEAF_REC = None  # list while recording
_GUARDS = []


class record_leaves:
    def __enter__(self):
        global LEAF_REC
        LEAF_REC = []
        return LEAF_REC

    def __exit__(self, *exc):
        global LEAF_REC
        LEAF_REC = None


class _guard:
    """the sub-reference evaluated inside is only 'live' when cond holds (switch branch, mask flag)"""

    def __init__(self, cond):
        self.cond = cond

    def __enter__(self):
        _GUARDS.append(self.cond)

    def __exit__(self, *exc):
        _GUARDS.pop()


def Dist(dist):
    def ref(args, vals):
        t = lp(dist, vals[0], *args)
        if LEAF_REC is not None:
            g = True
            for c in _GUARDS:
                g = jnp.logical_and(g, c)
            LEAF_REC.append((dist, tuple(args), vals[0], g))
        return RefOut(t, vals[0], [t], [True])

    def assume(*a):
        if dist == "normal":
            return [a[1][()] > 0]
        if dist == "flip":
            return [a[0][()] > 0, a[0][()] < 1]
        if dist == "uniform":
            return [a[1][()] > a[0][()]]
        return []

    return Prog(dist, _GJ[dist], _ARGS[dist], [Site((), (), dist, _EX[dist])], ref, assume,
                frozenset({"update", "regenerate", "project"}), 0, "dist")


# --------------------------------------------------------------------------
# static functions


def Static(name, subs, retfn, args, assume=lambda *a: []):
    """subs: list of (addr, Prog, argfn) where argfn(args, rets) -> sub args.
    retfn(args, rets) -> return value.  addr: str or tuple of str."""

    @gen
    def model(*a):
        rets = []
        for addr, P, argfn in subs:
            rets.append(P.gf(*argfn(a, rets)) @ addr)
        return retfn(a, rets)

    sites, owner = [], []
    for si, (addr, P, _) in enumerate(subs):
        pre = addr if isinstance(addr, tuple) else (addr,)
        for s in P.sites:
            sites.append(Site(pre + s.addr, s.batch, s.dist, s.example))
            owner.append(si)

    def ref(a, vals):
        rets, terms, present = [], [], []
        score = 0.0
        off = 0
        for addr, P, argfn in subs:
            n = len(P.sites)
            r = P.ref(tuple(argfn(a, rets)), vals[off:off + n])
            off += n
            rets.append(r.retval)
            terms += r.terms
            present += r.present
            score = score + r.score
        return RefOut(score, retfn(a, rets), terms, present)

    def assume_all(*sa):
        return list(assume(*sa))

    sup = frozenset({"update", "project", "static_request"} | ({"regenerate"} if all("regenerate" in P.supports for _, P, _ in subs) else set()))
    p = Prog(name, model, args, sites, ref, assume_all, sup, 1 + max(P.depth for _, P, _ in subs), "static")
    p.meta["subs"] = subs
    p.meta["owner"] = owner
    return p


# --------------------------------------------------------------------------
# combinators


def _stack_sites(P, n):
    return [Site((IDX,) + s.addr, (n,) + s.batch, s.dist, jnp.stack([s.example] * n)) for s in P.sites]


def Vmap(P, n, in_axes=0, args=None):
    """in_axes: int/None/tuple per arg (as the public API)."""
    axes = in_axes if isinstance(in_axes, tuple) else (in_axes,) * len(P.args)
    axes = tuple(0 if isinstance(ax, tuple) else ax for ax in axes)  # nested in_axes in the catalogue are all-zero tuples
    if args is None:
        args = tuple(jnp.stack([a + 0.25 * i if jnp.issubdtype(jnp.asarray(a).dtype, jnp.floating) else a for i in range(n)], axis=ax) if ax is not None else a
                     for a, ax in zip(P.args, axes))
    gf = P.gf.vmap(in_axes=in_axes if isinstance(in_axes, tuple) else in_axes)

    def slice_args(a, i):
        return tuple(jax.tree_util.tree_map(lambda x, ax=ax: jnp.take(x, i, axis=ax), x_) if ax is not None else x_ for x_, ax in zip(a, axes))

    def ref(a, vals):
        outs = [P.ref(slice_args(a, i), [v[i] for v in vals]) for i in range(n)]
        if n == 0:
            return RefOut(_f(0.0), None, [], [])
        score = sum(o.score for o in outs)
        ret = jax.tree_util.tree_map(lambda *xs: jnp.stack(xs), *[o.retval for o in outs])
        terms = [jnp.stack([o.terms[j] for o in outs]) for j in range(len(P.sites))]
        present = [jnp.stack([jnp.asarray(o.present[j]) for o in outs]) for j in range(len(P.sites))]
        return RefOut(score, ret, terms, present)

    def assume(*sa):
        out = []
        for i in range(n):
            out += P.assume(*[_sym_index(x, i, ax) if ax is not None else x for x, ax in zip(sa, axes)])
        return out

    return Prog(f"vmap{n}({P.name})", gf, args, _stack_sites(P, n), ref, assume,
                frozenset({"update", "project", "index"}), P.depth + 1, "vmap", {"inner": P, "n": n, "axes": axes})


def _sym_index(x, i, axis=0):
    import numpy as np

    return jax.tree_util.tree_map(lambda a: _box(np.take(a, i, axis=axis)), x)


def _box(r):
    import numpy as np

    if isinstance(r, np.ndarray):
        return r
    a = np.empty((), dtype=object)
    a[()] = r
    return a


def Repeat(P, n):
    gf = P.gf.repeat(n=n)

    def ref(a, vals):
        outs = [P.ref(a, [v[i] for v in vals]) for i in range(n)]
        score = sum(o.score for o in outs)
        ret = jax.tree_util.tree_map(lambda *xs: jnp.stack(xs), *[o.retval for o in outs])
        terms = [jnp.stack([o.terms[j] for o in outs]) for j in range(len(P.sites))]
        present = [jnp.stack([jnp.asarray(o.present[j]) for o in outs]) for j in range(len(P.sites))]
        return RefOut(score, ret, terms, present)

    return Prog(f"repeat{n}({P.name})", gf, P.args, _stack_sites(P, n), ref, P.assume,
                frozenset({"update", "project"}), P.depth + 1, "repeat", {"inner": P, "n": n})


def Scan(K, n, args=None):
    """K: kernel Prog with args (carry, x) -> (carry, out)."""
    gf = K.gf.scan(n=n)
    if args is None:
        args = (K.args[0], jnp.stack([K.args[1] + 0.5 * i for i in range(n)]))

    def ref(a, vals):
        carry, xs = a
        score, outs, terms, present = 0.0, [], [], []
        per = []
        for i in range(n):
            r = K.ref((carry, jax.tree_util.tree_map(lambda x: x[i], xs)), [v[i] for v in vals])
            carry, out = r.retval
            outs.append(out)
            score = score + r.score
            per.append(r)
        ys = jax.tree_util.tree_map(lambda *xs_: jnp.stack(xs_), *outs) if n else None
        terms = [jnp.stack([o.terms[j] for o in per]) for j in range(len(K.sites))]
        present = [jnp.stack([jnp.asarray(o.present[j]) for o in per]) for j in range(len(K.sites))]
        return RefOut(score, (carry, ys), terms, present)

    def assume(*sa):
        return []

    sup = {"update", "project", "index"} | ({"regenerate"} if "regenerate" in K.supports else set())
    return Prog(f"scan{n}({K.name})", gf, args, _stack_sites(K, n), ref, assume, frozenset(sup), K.depth + 1,
                "scan", {"inner": K, "n": n})


def _clampi(idx, n):
    return jnp.clip(idx, 0, n - 1)


def merge_branch_sites(branches, prefix=()):
    """Branches may share addresses: one value slot per distinct static address."""
    sites, maps = [], []
    for b in branches:
        m = []
        for s in b.sites:
            s2 = Site(prefix + s.addr, s.batch, s.dist, s.example)
            for j, t in enumerate(sites):
                if t.addr == s2.addr:
                    assert t.batch == s2.batch and t.dist == s2.dist, f"shared address {t.addr} with different shapes"
                    m.append(j)
                    break
            else:
                sites.append(s2)
                m.append(len(sites) - 1)
        maps.append(m)
    return sites, maps


def _merge_ref(n_sites, maps, outs, conds):
    terms = [0.0] * n_sites
    present = [False] * n_sites
    for m, o, c in zip(maps, outs, conds):
        for j, t, p_ in zip(m, o.terms, o.present):
            terms[j] = terms[j] + jnp.where(c, t, 0.0)
            present[j] = jnp.logical_or(present[j], jnp.logical_and(c, p_))
    return terms, present


def Switch(branches, idx=1):
    gf = branches[0].gf.switch(*[b.gf for b in branches[1:]])
    n = len(branches)
    args = (jnp.int32(idx),) + tuple(b.args for b in branches)
    sites, maps = merge_branch_sites(branches)

    def ref(a, vals):
        k = _clampi(a[0], n)
        outs = []
        for i, (b, ba, m) in enumerate(zip(branches, a[1:], maps)):
            with _guard(k == i):
                outs.append(b.ref(tuple(ba), [vals[j] for j in m]))
        score = sum(jnp.where(k == i, o.score, 0.0) for i, o in enumerate(outs))
        ret = outs[0].retval
        for i in range(1, n):
            ret = jax.tree_util.tree_map(lambda x, y, i=i: jnp.where(k == i, y, x), ret, outs[i].retval)
        terms, present = _merge_ref(len(sites), maps, outs, [k == i for i in range(n)])
        return RefOut(score, ret, terms, present)

    def assume(*sa):
        out = []
        for b, ba in zip(branches, sa[1:]):
            out += b.assume(*ba)
        return out

    return Prog("switch(" + ",".join(b.name for b in branches) + ")", gf, args, sites, ref, assume,
                frozenset({"update", "project"}), 1 + max(b.depth for b in branches), "switch",
                {"branches": branches, "maps": maps})


def MaskP(P, flag=True):
    gf = P.gf.mask()
    args = (jnp.array(flag),) + tuple(P.args)

    def ref(a, vals):
        with _guard(a[0]):
            r = P.ref(tuple(a[1:]), vals)
        f = a[0]
        rv = jax.tree_util.tree_map(lambda t: jnp.where(f, t, jnp.zeros_like(t)), r.retval)
        return RefOut(jnp.where(f, r.score, 0.0), (rv, f), [jnp.where(f, t, 0.0) for t in r.terms],
                      [jnp.logical_and(f, p_) for p_ in r.present])

    return Prog(f"mask({P.name})", gf, args, list(P.sites), ref, lambda *sa: P.assume(*sa[1:]),
                frozenset({"update"}), P.depth + 1, "mask", {"inner": P})


def Dimap(P, pre, post, args, name="dimap", assume=lambda *a: []):
    gf = P.gf.dimap(pre=pre, post=post)

    def ref(a, vals):
        xa = pre(*a)
        r = P.ref(tuple(xa), vals)
        return RefOut(r.score, post(a, xa, r.retval), r.terms, r.present)

    return Prog(f"{name}({P.name})", gf, args, list(P.sites), ref, assume, P.supports - {"index", "static_request"}, P.depth + 1,
                "dimap", {"inner": P})


def MapP(P, f, name="map"):
    gf = P.gf.map(f)

    def ref(a, vals):
        r = P.ref(a, vals)
        return RefOut(r.score, f(r.retval), r.terms, r.present)

    return Prog(f"{name}({P.name})", gf, P.args, list(P.sites), ref, P.assume, P.supports - {"index", "static_request"}, P.depth + 1,
                "dimap", {"inner": P})


def Contramap(P, f, args, name="contramap", assume=lambda *a: []):
    gf = P.gf.contramap(f)

    def ref(a, vals):
        xa = f(*a)
        xa = xa if isinstance(xa, tuple) else (xa,)
        return P.ref(tuple(xa), vals)

    return Prog(f"{name}({P.name})", gf, args, list(P.sites), ref, assume, P.supports - {"index", "static_request"}, P.depth + 1,
                "dimap", {"inner": P})


def OrElse(P, Q, flag=True):
    gf = P.gf.or_else(Q.gf)
    args = (jnp.array(flag), tuple(P.args), tuple(Q.args))
    sites, maps = merge_branch_sites([P, Q])

    def ref(a, vals):
        f = a[0]
        with _guard(f):
            rp = P.ref(tuple(a[1]), [vals[j] for j in maps[0]])
        with _guard(jnp.logical_not(f)):
            rq = Q.ref(tuple(a[2]), [vals[j] for j in maps[1]])
        ret = jax.tree_util.tree_map(lambda x, y: jnp.where(f, x, y), rp.retval, rq.retval)
        terms, present = _merge_ref(len(sites), maps, [rp, rq], [f, jnp.logical_not(f)])
        return RefOut(jnp.where(f, rp.score, rq.score), ret, terms, present)

    return Prog(f"or_else({P.name},{Q.name})", gf, args, sites, ref,
                lambda *sa: P.assume(*sa[1]) + Q.assume(*sa[2]), frozenset({"update", "project"}), 2 + max(P.depth, Q.depth), "or_else",
                {"branches": [P, Q], "maps": maps})


def Mix(P, Q):
    gf = P.gf.mix(Q.gf)
    args = (jnp.array([0.2, -0.3], jnp.float32), tuple(P.args), tuple(Q.args))
    idx_site = Site(("mixture_component",), (), "categorical2", jnp.int32(1))
    bsites, maps = merge_branch_sites([P, Q], prefix=("component_sample",))

    def ref(a, vals):
        logits = a[0]
        k = vals[0]
        lk = tfd.Categorical(logits=logits).log_prob(k)
        bv = vals[1:]
        kk = _clampi(k, 2)
        if LEAF_REC is not None:
            LEAF_REC.append(("categorical2", (logits,), k, True))
        with _guard(kk == 0):
            rp = P.ref(tuple(a[1]), [bv[j] for j in maps[0]])
        with _guard(kk == 1):
            rq = Q.ref(tuple(a[2]), [bv[j] for j in maps[1]])
        ret = jax.tree_util.tree_map(lambda x, y: jnp.where(kk == 0, x, y), rp.retval, rq.retval)
        terms, present = _merge_ref(len(bsites), maps, [rp, rq], [kk == 0, kk == 1])
        return RefOut(lk + jnp.where(kk == 0, rp.score, rq.score), ret, [lk] + terms, [True] + present)

    p = Prog(f"mix({P.name},{Q.name})", gf, args, [idx_site] + bsites, ref, lambda *sa: P.assume(*sa[1]) + Q.assume(*sa[2]),
             frozenset({"update", "project"}), 3 + max(P.depth, Q.depth), "mix", {"branches": [P, Q], "maps": maps})
    return p


# --------------------------------------------------------------------------
# catalogue


def k_normal_walk():
    """kernel (carry, x) -> (carry', out): z ~ normal(carry + x, 1); carry' = z, out = z * x."""
    N = Dist("normal")
    return Static("kern", [("z", N, lambda a, r: (a[0] + a[1], _f(1.0)))], lambda a, r: (r[0], r[0] * a[1]),
                  (_f(0.2), _f(0.7)))


def k_two_site():
    """kernel with two dependent sites and a nonlinear carry."""
    N, F = Dist("normal"), Dist("flip")
    return Static("kern2", [("z", N, lambda a, r: (a[0], _f(2.0))),
                            ("b", F, lambda a, r: (_f(0.25),))],
                  lambda a, r: (r[0] + a[1], jnp.where(r[1], r[0], a[1])), (_f(0.2), _f(0.7)))


def inner1():
    """x -> a ~ normal(x, 1); return 2a"""
    N = Dist("normal")
    return Static("inner1", [("a", N, lambda a, r: (a[0], _f(1.0)))], lambda a, r: r[0] * 2.0, (_f(0.4),))


def inner2():
    """x -> a ~ normal(x, 1.5) @ ("u","a"); b ~ normal(a, 0.5) @ ("t","b"); return a + b   (hierarchical addresses)"""
    N = Dist("normal")
    return Static("inner2", [(("u", "a"), N, lambda a, r: (a[0], _f(1.5))), (("t", "b"), N, lambda a, r: (r[0], _f(0.5)))],
                  lambda a, r: r[0] + r[1], (_f(0.4),))


def inner2s():
    """x -> a ~ normal(x, 1.5); b ~ normal(a, 0.5); return a + b   (address "a" shared with inner1)"""
    N = Dist("normal")
    return Static("inner2s", [("a", N, lambda a, r: (a[0], _f(1.5))), ("b", N, lambda a, r: (r[0], _f(0.5)))],
                  lambda a, r: r[0] + r[1], (_f(0.4),))


def inner3():
    """x -> c ~ normal(2x, 0.5) @ "c"; return c - x"""
    N = Dist("normal")
    return Static("inner3", [("c", N, lambda a, r: (a[0] * 2.0, _f(0.5)))], lambda a, r: r[0] - a[0], (_f(0.4),))


def inner_flip():
    """x -> f ~ flip(0.3); c ~ normal(where(f, x, -x), 1); return c"""
    N, F = Dist("normal"), Dist("flip")
    return Static("innerF", [("f", F, lambda a, r: (_f(0.3),)), ("c", N, lambda a, r: (jnp.where(r[0], a[0], -a[0]), _f(1.0)))],
                  lambda a, r: r[1], (_f(0.4),))


def inner_sigma():
    """(x, s) -> a ~ normal(x, s); return a"""
    N = Dist("normal")
    return Static("innerS", [("a", N, lambda a, r: (a[0], a[1]))], lambda a, r: r[0], (_f(0.4), _f(1.3)),
                  assume=lambda *sa: [sa[1][()] > 0])


def inner_vec():
    """(x: f32[2]) -> a ~ normal(x[0] + 2 x[1], 1); return a + x[0]   (for vmap over a non-leading axis)"""
    N = Dist("normal")
    return Static("innerV", [("a", N, lambda a, r: (a[0][0] + 2.0 * a[0][1], _f(1.0)))], lambda a, r: r[0] + a[0][0], (jnp.asarray([0.4, -0.3], jnp.float32),))


def k_scanned_site():
    """kernel (carry, x) -> (carry', out) with one site that depends ONLY on the scanned input and one only on the carry:
    z ~ normal(x, 1) @ "z"; c ~ normal(carry, 1) @ "c"; carry' = c, out = z + c"""
    N = Dist("normal")
    return Static("kernX", [("z", N, lambda a, r: (a[1], _f(1.0))), ("c", N, lambda a, r: (a[0], _f(1.0)))],
                  lambda a, r: (r[1], r[0] + r[1]), (_f(0.2), _f(0.7)))


def k_nested():
    """kernel (carry, x) -> (carry', out) whose SECOND address is a nested static call: a ~ normal(carry, 1) @ "a";
    b = inner1(a + x) @ "b"   (key derivations of nested calls inside a scan)"""
    N = Dist("normal")
    return Static("kernN", [("a", N, lambda a, r: (a[0], _f(1.0))), ("b", inner1(), lambda a, r: (r[0] + a[1],))],
                  lambda a, r: (r[1], r[0] * a[1]), (_f(0.2), _f(0.7)))


def static_vmap3_then_site():
    """xs = inner1.vmap()(v3) @ "xs"; y ~ normal(sum(xs), 1) @ "y"   (a 3-element vmap followed by a sibling address)"""
    N = Dist("normal")
    return Static("sv3", [("xs", Vmap(inner1(), 3), lambda a, r: (a[0],)), ("y", N, lambda a, r: (jnp.sum(r[0]), _f(1.0)))],
                  lambda a, r: r[1], (jnp.asarray([0.4, 0.65, 0.9], jnp.float32),))


def static_vmapdist3_then_site():
    """xs = normal.vmap(in_axes=(0, None))(m3, 1.0) @ "xs"; y ~ normal(sum(xs), 1) @ "y"
    (a vmapped BARE distribution with 3 elements followed by a bare distribution: their keys are derived side by side)"""
    N = Dist("normal")
    VD = Vmap(Dist("normal"), 3, in_axes=(0, None), args=(jnp.asarray([0.4, 0.65, 0.9], jnp.float32), _f(1.0)))
    return Static("svd3", [("xs", VD, lambda a, r: (a[0], _f(1.0))), ("y", N, lambda a, r: (jnp.sum(r[0]), _f(1.0)))],
                  lambda a, r: r[1], (jnp.asarray([0.4, 0.65, 0.9], jnp.float32),))


def static_dimap_then_site():
    """v = inner1.dimap(pre=(x, y) -> (x + y,), post=(args, xf, r) -> r * y + xf[0])(x, y) @ "d"; w ~ normal(v, 1) @ "w"
    (the dimap's return value - which reads the TRANSFORMED arguments - feeds a later site)"""
    N = Dist("normal")
    D = Dimap(inner1(), lambda x, y: (x + y,), lambda a, xa, r: r * a[1] + xa[0], (_f(0.4), _f(1.2)))
    return Static("sdm", [("d", D, lambda a, r: (a[0], a[1])), ("w", N, lambda a, r: (r[0], _f(1.0)))], lambda a, r: r[1] + r[0], (_f(0.4), _f(1.2)))


def catalogue(tier="quick"):
    """Name -> thunk; thunks build the Prog lazily (tracing happens later)."""
    N = lambda: Dist("normal")  # noqa: E731
    progs = {
        "normal": lambda: Dist("normal"),
        "flip": lambda: Dist("flip"),
        "categorical": lambda: Dist("categorical3"),
        "inner2": inner2,
        "innerF": inner_flip,
        "vmap(inner1)": lambda: Vmap(inner1(), 3),
        "vmap(inner2)": lambda: Vmap(inner2(), 2),
        "vmap(innerS;0,None)": lambda: Vmap(inner_sigma(), 3, in_axes=(0, None)),
        "vmap(innerV;axis1)": lambda: Vmap(inner_vec(), 2, in_axes=(1,)),
        "repeat(inner1)": lambda: Repeat(inner1(), 3),
        "scan(walk)": lambda: Scan(k_normal_walk(), 3),
        "scan(kern2)": lambda: Scan(k_two_site(), 3),
        "switch(inner1,inner2)": lambda: Switch([inner1(), inner2()]),
        "switch(inner1,inner2s)": lambda: Switch([inner1(), inner2s()]),
        "switch3": lambda: Switch([inner1(), inner2(), inner_flip()], idx=2),
        "mask(inner1)": lambda: MaskP(inner1()),
        "mask(inner2)": lambda: MaskP(inner2()),
        "dimap(inner1)": lambda: Dimap(inner1(), lambda x, y: (x + y,), lambda a, xa, r: r * a[1] + xa[0], (_f(0.4), _f(1.2))),
        "map(inner2)": lambda: MapP(inner2(), lambda r: r * r + 1.0),
        "contramap(innerS)": lambda: Contramap(inner_sigma(), lambda x: (x * 2.0, _f(0.5)), (_f(0.4),)),
        "or_else(inner1,inner2)": lambda: OrElse(inner1(), inner2()),
        "or_else(inner1,inner2s)": lambda: OrElse(inner1(), inner2s(), flag=False),
        "mix(inner1,inner2)": lambda: Mix(inner1(), inner2()),
        "composed": composed,
        "scan(kernN)": lambda: Scan(k_nested(), 3),
        "scan(kernX)": lambda: Scan(k_scanned_site(), 3),
        "static(vmap3;y)": static_vmap3_then_site,
        "static(vmapdist3;y)": static_vmapdist3_then_site,
        "static(dimap;w)": static_dimap_then_site,
        "static(vmap)": static_vmap,
        "static(scan)": static_scan,
        "static(switch)": static_switch,
        "static(mask)": static_mask,
        "vmap(vmap)": lambda: Vmap(Vmap(inner1(), 2), 2),
        "vmap(scan)": lambda: Vmap(Scan(k_normal_walk(), 2), 2, in_axes=(0, None), args=(jnp.array([0.2, 0.5], jnp.float32), jnp.array([0.7, 1.2], jnp.float32))),
        "scan(static(vmap))": scan_of_vmap,
        "vmap(switch)": lambda: Vmap(Switch([inner1(), inner2()]), 2, in_axes=(0, (0,), (0,)), args=(jnp.array([0, 1], jnp.int32), (jnp.array([0.4, 0.6], jnp.float32),), (jnp.array([0.1, 0.9], jnp.float32),))),
        "vmap(mask)": lambda: Vmap(MaskP(inner1()), 2, in_axes=(0, 0), args=(jnp.array([True, False]), jnp.array([0.4, 0.6], jnp.float32))),
        "switch(static(vmap),inner3)": lambda: Switch([sv1(), inner3()], idx=0),
        "switch(inner1,inner3)": lambda: Switch([inner1(), inner3()], idx=0),
        "mask(scan)": lambda: MaskP(Scan(k_normal_walk(), 2)),
    }
    del N
    return progs


def static_vmap():
    V = Vmap(inner1(), 3)
    N = Dist("normal")
    return Static("sv", [("m", N, lambda a, r: (a[0], _f(1.0))), ("v", V, lambda a, r: (r[0] + a[1],))],
                  lambda a, r: r[1].sum() + r[0], (_f(0.3), jnp.array([0.1, 0.2, 0.3], jnp.float32)))


def sv1():
    V = Vmap(inner1(), 2)
    return Static("sv1", [("v", V, lambda a, r: (a[0],))], lambda a, r: r[0].sum(), (jnp.array([0.1, 0.2], jnp.float32),))


def static_scan():
    S = Scan(k_normal_walk(), 3)
    N = Dist("normal")
    return Static("ss", [("m", N, lambda a, r: (a[0], _f(1.0))), ("s", S, lambda a, r: (r[0], a[1]))],
                  lambda a, r: r[1][0] + r[1][1].sum(), (_f(0.3), jnp.array([0.1, 0.2, 0.3], jnp.float32)))


def static_switch():
    Sw = Switch([inner1(), inner2()])
    N = Dist("normal")
    return Static("ssw", [("m", N, lambda a, r: (a[0], _f(1.0))), ("sw", Sw, lambda a, r: (a[1], (r[0],), (a[0],)))],
                  lambda a, r: r[1] + r[0], (_f(0.3), jnp.int32(1)))


def static_mask():
    M = MaskP(inner1())
    N = Dist("normal")
    return Static("sm", [("m", N, lambda a, r: (a[0], _f(1.0))), ("k", M, lambda a, r: (a[1], r[0]))],
                  lambda a, r: r[0] + jnp.where(r[1].primal_flag() if isinstance(r[1], Mask) else r[1][1],
                                                r[1].value if isinstance(r[1], Mask) else r[1][0], 0.0),
                  (_f(0.3), jnp.array(True)))


def composed():
    """The probe model: static(vmap, scan, switch(map), mask)."""
    V = Vmap(inner1(), 3)
    S = Scan(k_normal_walk(), 3)
    Sw = Switch([inner1(), MapP(inner1(), lambda r: r + 1.0)])
    M = MaskP(inner1())

    def retfn(a, r):
        return r[0].sum() + r[1][0] + r[2]

    return Static("composed", [
        ("v", V, lambda a, r: (a[3],)),
        ("s", S, lambda a, r: (a[0], a[3])),
        ("sw", Sw, lambda a, r: (a[1], (a[0],), (r[1][0],))),
        ("m", M, lambda a, r: (a[2], a[0])),
    ], retfn, (_f(1.0), jnp.int32(1), jnp.array(True), jnp.array([0.0, 1.0, 2.0], jnp.float32)))


def scan_of_vmap():
    V = Vmap(inner1(), 2)
    K = Static("kv", [("v", V, lambda a, r: (jnp.stack([a[0], a[1]]),))], lambda a, r: (r[0].sum(), r[0][0]), (_f(0.2), _f(0.7)))
    return Scan(K, 2)


def retval_leaves(prog, ret):
    """Flatten a real retval (may contain genjax.Mask) to (value, flag) leaves comparable with ref retval."""
    if prog.kind == "mask":
        return (ret.value, ret.primal_flag())
    return ret


def norm_ret(prog, ret):
    """Normalise a retval so that masked-off payloads compare equal."""
    def one(x):
        if isinstance(x, Mask):
            f = x.primal_flag()
            return (jax.tree_util.tree_map(lambda v: jnp.where(f, v, jnp.zeros_like(v)), x.value), jnp.asarray(f))
        return x
    if prog.kind == "mask" and isinstance(ret, tuple) and len(ret) == 2 and not isinstance(ret, Mask):
        v, f = ret
        return (jax.tree_util.tree_map(lambda t: jnp.where(f, t, jnp.zeros_like(t)), v), jnp.asarray(f))
    return jax.tree_util.tree_map(one, ret, is_leaf=lambda x: isinstance(x, Mask))


# --------------------------------------------------------------------------
# scan-derived combinators: references are the documented Python loops


def step_fn():
    """x -> z ~ normal(x, 1) @ "z"; return x + 0.5 z + 1    (not the identity)"""
    N = Dist("normal")
    return Static("step", [("z", N, lambda a, r: (a[0], _f(1.0)))], lambda a, r: a[0] + 0.5 * r[0] + 1.0, (_f(0.2),))


def step_det():
    """x -> b ~ flip(0.4) @ "b"; return 2x + 1   (value does not depend on the choice)"""
    F = Dist("flip")
    return Static("stepdet", [("b", F, lambda a, r: (_f(0.4),))], lambda a, r: 2.0 * a[0] + 1.0, (_f(0.2),))


def acc_fn():
    """(c, x) -> z ~ normal(c + x, 1); return 0.5 z + x"""
    N = Dist("normal")
    return Static("accf", [("z", N, lambda a, r: (a[0] + a[1], _f(1.0)))], lambda a, r: 0.5 * r[0] + a[1], (_f(0.2), _f(0.7)))


def _loop_ref(F, n, argsfn, collect):
    """Shared reference loop: F applied n times; argsfn(carry, i, a) -> F args; collect(carries, a) -> retval."""

    def ref(a, vals):
        carry = a[0]
        carries, per = [carry], []
        score = 0.0
        for i in range(n):
            r = F.ref(argsfn(carry, i, a), [v[i] for v in vals])
            carry = r.retval
            carries.append(carry)
            per.append(r)
            score = score + r.score
        terms = [jnp.stack([o.terms[j] for o in per]) for j in range(len(F.sites))]
        present = [jnp.stack([jnp.asarray(o.present[j]) for o in per]) for j in range(len(F.sites))]
        return RefOut(score, collect(carries, a), terms, present)

    return ref


def Accumulate(F, n):
    xs = jnp.stack([F.args[1] + 0.5 * i for i in range(n)])
    ref = _loop_ref(F, n, lambda c, i, a: (c, a[1][i]), lambda cs, a: jnp.stack(cs))
    return Prog(f"accumulate{n}({F.name})", F.gf.accumulate(), (F.args[0], xs), _stack_sites(F, n), ref, lambda *sa: [],
                frozenset({"update", "project"}), F.depth + 2, "derived", {"inner": F, "n": n})


def Reduce(F, n):
    xs = jnp.stack([F.args[1] + 0.5 * i for i in range(n)])
    ref = _loop_ref(F, n, lambda c, i, a: (c, a[1][i]), lambda cs, a: cs[-1])
    return Prog(f"reduce{n}({F.name})", F.gf.reduce(), (F.args[0], xs), _stack_sites(F, n), ref, lambda *sa: [],
                frozenset({"update", "project"}), F.depth + 2, "derived", {"inner": F, "n": n})


def Iterate(F, n):
    ref = _loop_ref(F, n, lambda c, i, a: (c,), lambda cs, a: jnp.stack(cs))
    return Prog(f"iterate{n}({F.name})", F.gf.iterate(n=n), (F.args[0],), _stack_sites(F, n), ref, lambda *sa: [],
                frozenset({"update", "project"}), F.depth + 2, "derived", {"inner": F, "n": n})


def IterateFinal(F, n):
    ref = _loop_ref(F, n, lambda c, i, a: (c,), lambda cs, a: cs[-1])
    return Prog(f"iterate_final{n}({F.name})", F.gf.iterate_final(n=n), (F.args[0],), _stack_sites(F, n), ref, lambda *sa: [],
                frozenset({"update", "project"}), F.depth + 2, "derived", {"inner": F, "n": n})


def _masked_loop_ref(F, n, final):
    def ref(a, vals):
        x, mask = a
        xs, per_t, per_p = [x], [[] for _ in F.sites], [[] for _ in F.sites]
        score = 0.0
        for i in range(n):
            r = F.ref((x,), [v[i] for v in vals])
            m = mask[i]
            score = score + jnp.where(m, r.score, 0.0)
            if final:
                x = jnp.where(m, r.retval, x)  # documented: a masked-off step leaves the value unchanged
            else:
                x = r.retval
            xs.append(x)
            for j in range(len(F.sites)):
                per_t[j].append(jnp.where(m, r.terms[j], 0.0))
                per_p[j].append(jnp.logical_and(m, r.present[j]))
        terms = [jnp.stack(t) for t in per_t]
        present = [jnp.stack(p_) for p_ in per_p]
        return RefOut(score, xs[-1] if final else jnp.stack(xs), terms, present)

    return ref


def MaskedIterateFinal(F, n):
    return Prog(f"masked_iterate_final{n}({F.name})", F.gf.masked_iterate_final(), (F.args[0], jnp.array([True, False, True][:n])), _stack_sites(F, n),
                _masked_loop_ref(F, n, True), lambda *sa: [], frozenset({"update"}), F.depth + 3, "derived", {"inner": F, "n": n})


def MaskedIterate(F, n):
    return Prog(f"masked_iterate{n}({F.name})", F.gf.masked_iterate(), (F.args[0], jnp.array([True, False, True][:n])), _stack_sites(F, n),
                _masked_loop_ref(F, n, False), lambda *sa: [], frozenset({"update"}), F.depth + 3, "derived", {"inner": F, "n": n})


def derived_catalogue():
    return {
        "accumulate(accf)": lambda: Accumulate(acc_fn(), 3),
        "reduce(accf)": lambda: Reduce(acc_fn(), 3),
        "iterate(step)": lambda: Iterate(step_fn(), 3),
        "iterate_final(step)": lambda: IterateFinal(step_fn(), 3),
        "iterate_final(stepdet)": lambda: IterateFinal(step_det(), 2),
        "masked_iterate_final(step)": lambda: MaskedIterateFinal(step_fn(), 3),
        "masked_iterate_final(stepdet)": lambda: MaskedIterateFinal(step_det(), 3),
        "masked_iterate(step)": lambda: MaskedIterate(step_fn(), 3),
    }
