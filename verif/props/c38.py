"""C38: derived GFI methods and request combinators agree with the primitives."""
import jax
import jax.numpy as jnp
from genjax import ChoiceMapBuilder as C
from genjax import Diff, EmptyRequest, Regenerate, StaticRequest, Update
from genjax import Selection as S
from genjax._src.core.generative.requests import DiffAnnotate

from verif import gfi, programs as PG
from verif.engine import Ob

LEVEL = "model_checking"
BOUNDS = {"programs": "catalogue (derived-method equalities on all; StaticRequest on static programs)", "requests": "EmptyRequest under NoChange / UnknownChange args; StaticRequest with Update / Regenerate / nested StaticRequest sub-requests on one address and EmptyRequest elsewhere; DiffAnnotate(identity maps) around Update and Regenerate"}
ASSUMPTIONS = ["both sides run the real code with the same key"]
OUTSIDE = ["DiffAnnotate with non-identity maps (documented as unsafe)"]


def tv(P, tr):
    return (tr.get_score(), PG.norm_ret(P, tr.get_retval()), gfi.chm_view(P, tr.get_choices()), tr.get_args())


def obligations(tier, seed):
    cat, names = gfi.prog_names(tier)
    obs = []
    for nm in names:
        P = cat[nm]()
        A = gfi.base_assume(P, in_range=False)
        ex, ex2 = P.example_vals(), gfi.perturb_vals(P)
        args2 = jax.tree_util.tree_map(lambda x: x + 0.25 if jnp.issubdtype(x.dtype, jnp.floating) else x, P.args)
        n = len(P.sites)

        def derived(key, args, vals, P=P):
            tr = P.gf.simulate(key, args)
            ch, sc, rv = P.gf.propose(key, args)
            i1 = P.gf.importance(key, P.chm(vals, subset=(0,)), args)
            g1 = P.gf.generate(key, P.chm(vals, subset=(0,)), args)
            lhs = [gfi.chm_view(P, ch), sc, PG.norm_ret(P, rv), tv(P, i1[0]), i1[1]]
            rhs = [gfi.chm_view(P, tr.get_choices()), tr.get_score(), PG.norm_ret(P, tr.get_retval()), tv(P, g1[0]), g1[1]]
            return lhs, rhs

        obs.append(Ob(f"C38/propose=simulate,importance=generate/{nm}", derived, (gfi.KEY, P.args, ex), assume=lambda k, a, v, A=A: A(a, v)))
        if "update" in P.supports:
            def trace_methods(key, args, vals, vals2, args2, P=P):
                tr, _ = P.gf.importance(key, P.chm(vals), args)
                c = P.chm(vals2, subset=(n - 1,))
                ad = Diff.unknown_change(args2)
                a = tr.update(key, c, ad)
                b = P.gf.update(key, tr, c, ad)
                e1 = tr.edit(key, Update(c), ad)
                e2 = P.gf.edit(key, tr, Update(c), ad)
                u0 = tr.update(key, c)  # argdiffs default: no change
                u1 = P.gf.update(key, tr, c, Diff.no_change(args))
                lhs = [tv(P, a[0]), a[1], gfi.chm_view(P, a[3]), tv(P, e1[0]), e1[1], tv(P, u0[0]), u0[1]]
                rhs = [tv(P, b[0]), b[1], gfi.chm_view(P, b[3]), tv(P, e2[0]), e2[1], tv(P, u1[0]), u1[1]]
                if "project" in P.supports and "mask" not in P.name and P.name not in ("composed", "sm"):
                    lhs.append(tr.project(key, S.all())); rhs.append(P.gf.project(key, tr, S.all()))
                return lhs, rhs

            obs.append(Ob(f"C38/Trace.update-edit-project=gen_fn/{nm}", trace_methods, (gfi.KEY, P.args, ex, ex2, args2), assume=lambda k, a, v, v2, a2, A=A: A(a, v) + A(a2, v2)))

            def empty(key, args, vals, args2, P=P):
                tr, _ = P.gf.importance(key, P.chm(vals), args)
                e0 = EmptyRequest().edit(key, tr, Diff.no_change(args))
                e1 = EmptyRequest().edit(key, tr, Diff.unknown_change(args2))
                u1 = Update(C.n()).edit(key, tr, Diff.unknown_change(args2))
                lhs = [tv(P, e0[0]), e0[1], PG.norm_ret(P, Diff.tree_primal(e0[2])), jnp.int32(Diff.static_check_no_change(e0[2])), tv(P, e1[0]), e1[1]]
                rhs = [tv(P, tr), jnp.float32(0.0), PG.norm_ret(P, tr.get_retval()), jnp.int32(1), tv(P, u1[0]), u1[1]]
                return lhs, rhs

            obs.append(Ob(f"C38/EmptyRequest/{nm}", empty, (gfi.KEY, P.args, ex, args2), assume=lambda k, a, v, a2, A=A: A(a, v) + A(a2, v)))

            def annotate(key, args, vals, vals2, args2, P=P):
                tr, _ = P.gf.importance(key, P.chm(vals), args)
                req = Update(P.chm(vals2, subset=(0,)))
                r1 = DiffAnnotate(req).edit(key, tr, Diff.unknown_change(args2))
                r2 = req.edit(key, tr, Diff.unknown_change(args2))
                r3 = req.dimap(pre=lambda a: a, post=lambda r: r).edit(key, tr, Diff.unknown_change(args2))
                return [tv(P, r1[0]), r1[1], tv(P, r3[0]), r3[1]], [tv(P, r2[0]), r2[1], tv(P, r2[0]), r2[1]]

            obs.append(Ob(f"C38/DiffAnnotate(identity)/{nm}", annotate, (gfi.KEY, P.args, ex, ex2, args2), assume=lambda k, a, v, v2, a2, A=A: A(a, v) + A(a2, v2)))
        if P.kind == "static":
            subs_ = P.meta["subs"]
            off = 0
            for addr, Q, _ in subs_:
                m = len(Q.sites)
                idxs = tuple(range(off, off + m))
                if "update" in Q.supports:
                    def sreq(key, args, vals, vals2, args2, P=P, Q=Q, addr=addr, idxs=idxs):
                        tr, _ = P.gf.importance(key, P.chm(vals), args)
                        for ad in (Diff.no_change(args), Diff.unknown_change(args2)):
                            pass
                        ad = Diff.unknown_change(args2)
                        r1 = StaticRequest({addr: Update(Q.chm([vals2[j] for j in idxs]))}).edit(key, tr, ad)
                        r2 = Update(P.chm(vals2, subset=idxs)).edit(key, tr, ad)
                        r3 = StaticRequest({addr: Update(Q.chm([vals2[j] for j in idxs]))}).edit(key, tr, Diff.no_change(args))
                        r4 = Update(P.chm(vals2, subset=idxs)).edit(key, tr, Diff.no_change(args))
                        # the returned backward request is the StaticRequest of the sub-requests' backward requests: applying it == applying Update's own
                        b1 = r1[3].edit(key, r1[0], Diff.unknown_change(args))
                        b2 = r2[3].edit(key, r2[0], Diff.unknown_change(args))
                        b3 = r3[3].edit(key, r3[0], Diff.no_change(args))
                        b4 = r4[3].edit(key, r4[0], Diff.no_change(args))
                        return ([tv(P, r1[0]), r1[1], tv(P, r3[0]), r3[1], tv(P, b1[0]), b1[1], tv(P, b3[0]), b3[1]],
                                [tv(P, r2[0]), r2[1], tv(P, r4[0]), r4[1], tv(P, b2[0]), b2[1], tv(P, b4[0]), b4[1]])

                    obs.append(Ob(f"C38/StaticRequest[{addr}:Update]=Update/{nm}", sreq, (gfi.KEY, P.args, ex, ex2, args2), assume=lambda k, a, v, v2, a2, A=A: A(a, v) + A(a2, v2),
                                  note="StaticRequest applying Update at one address (EmptyRequest elsewhere) == Update of the same sites, with and without argument changes; applying the returned backward request == applying Update's backward request"))
                if "regenerate" in Q.supports:
                    def sreg(key, args, vals, P=P, addr=addr, idxs=idxs):
                        tr, _ = P.gf.importance(key, P.chm(vals), args)
                        r1 = StaticRequest({addr: Regenerate(S.all())}).edit(key, tr, Diff.no_change(args))
                        old, new = gfi.chm_view(P, tr.get_choices()), gfi.chm_view(P, r1[0].get_choices())
                        lhs, rhs = gfi.full_view(P, r1[0])
                        r_old = P.ref(args, vals)
                        r_new = P.ref(args, gfi.trace_vals(P, r1[0]))
                        lhs.append(r1[1]); rhs.append(r_new.score - r_old.score)
                        for i in range(len(P.sites)):
                            if i not in idxs:
                                lhs.append(new[i]); rhs.append(old[i])
                        return lhs, rhs

                    obs.append(Ob(f"C38/StaticRequest[{addr}:Regenerate]/{nm}", sreg, (gfi.KEY, P.args, ex), assume=lambda k, a, v, A=A: A(a, v),
                                  note="StaticRequest applying Regenerate at one address: other addresses unchanged, weight == newscore-oldscore, trace == reference"))
                off += m
    return obs
