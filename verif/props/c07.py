"""C07: regenerate resamples exactly the selected choices."""
import jax
import jax.numpy as jnp
import z3
from genjax import Diff, Regenerate
from genjax import Selection as S

from verif import gfi, programs as PG, jaxsmt as J
from verif.engine import Ob
from verif.props.c05 import view
from verif.props.c10 import sel_cases

LEVEL = "model_checking"
BOUNDS = {"programs": "catalogue programs accepting Regenerate (distributions, static functions over them, scan of such kernels, dimap/map/contramap)", "selections": "all, none, each site, complements, wildcard, unions"}
ASSUMPTIONS = ["'redrawn from the prior given current parents' is decided as: the new value's log-density term in the reference at the NEW trace's values accounts for the weight (weight = newscore - oldscore, both from the reference), and the new value is a draw atom whose key differs from every key used to build the old trace (key-separation query in the Key datatype)"]
OUTSIDE = ["combinators that reject Regenerate (vmap, switch, mask): recorded as not accepted", "distributional statement itself (trusted PRNG contract)"]


def obligations(tier, seed):
    cat, names = gfi.prog_names(tier)
    obs = []
    for nm in names:
        P = cat[nm]()
        if "regenerate" not in P.supports:
            continue
        A = gfi.base_assume(P, in_range=False)
        for sn, sel, member in sel_cases(P, tier):
            def f(key, key2, args, vals, P=P, sel=sel, member=member):
                tr, _ = P.gf.importance(key, P.chm(vals), args)
                tr2, w, rd, bwd = Regenerate(sel).edit(key2, tr, Diff.no_change(args))
                old, new = view(P, tr.get_choices()), view(P, tr2.get_choices())
                newvals = [g[0] if g[0] is not None else s.example for g, s in zip(P.read(tr2.get_choices()), P.sites)]
                r_old, r_new = P.ref(args, vals), P.ref(args, newvals)
                lhs, rhs = [w, tr2.get_score(), PG.norm_ret(P, tr2.get_retval())], [r_new.score - r_old.score, r_new.score, PG.norm_ret(P, r_new.retval)]
                for i, m in enumerate(member):
                    if not m:
                        lhs.append(new[i]); rhs.append(old[i])
                if not any(member):
                    lhs.append(PG.norm_ret(P, tr2.get_retval())); rhs.append(PG.norm_ret(P, tr.get_retval()))
                    lhs.append(w); rhs.append(jnp.float32(0.0))
                return lhs, rhs

            obs.append(Ob(f"C07/regenerate[{sn}]/{nm}", f, (gfi.KEY, jax.random.key(1), P.args, P.example_vals()), assume=lambda k, k2, a, v, A=A: A(a, v),
                          note="unselected sites unchanged; weight == reference newscore-oldscore; empty selection => same trace, weight 0"))
    # ---- regenerate issued together with CHANGED arguments: unselected sites keep their values but are re-scored under the
    # new arguments; the new trace records the new arguments; weight == reference newscore(new args) - oldscore(old args)
    for nm in names:
        P = cat[nm]()
        if "regenerate" not in P.supports or any(k in nm for k in ("switch", "or_else", "mix", "composed")):
            continue
        A = gfi.base_assume(P, in_range=False)
        args2 = jax.tree_util.tree_map(lambda x: x + 0.25 if jnp.issubdtype(jnp.asarray(x).dtype, jnp.floating) else x, P.args)
        for sn, sel, member in sel_cases(P, tier)[:3]:
            def fa(key, key2, args, vals, args2, P=P, sel=sel, member=member):
                tr, _ = P.gf.importance(key, P.chm(vals), args)
                tr2, w, rd, bwd = Regenerate(sel).edit(key2, tr, Diff.unknown_change(args2))
                old, new = view(P, tr.get_choices()), view(P, tr2.get_choices())
                newvals = [g[0] if g[0] is not None else s_.example for g, s_ in zip(P.read(tr2.get_choices()), P.sites)]
                r_old, r_new = P.ref(args, vals), P.ref(args2, newvals)
                lhs = [w, tr2.get_score(), PG.norm_ret(P, tr2.get_retval()), tr2.get_args()]
                rhs = [r_new.score - r_old.score, r_new.score, PG.norm_ret(P, r_new.retval), args2]
                for i, m in enumerate(member):
                    if not m:
                        lhs.append(new[i]); rhs.append(old[i])
                return lhs, rhs

            obs.append(Ob(f"C07/regenerate[{sn}]+args/{nm}", fa, (gfi.KEY, jax.random.key(1), P.args, P.example_vals(), args2), assume=lambda k, k2, a, v, a2, A=A: A(a, v) + A(a2),
                          note="Regenerate(sel) with changed arguments: unselected values kept and re-scored under the NEW arguments, trace records the new arguments, weight == reference score change"))

    # ---- "selected choices are redrawn from their prior given the CURRENT values of their parents": every leaf of the new trace
    # is either its old value or the leaf sampler applied to the reference parameters at the NEW trace's values, under a key
    # of the edit (re-keying as in C04)
    from verif.props.c04 import GJ, key_subterms

    for nm in names:
        P = cat[nm]()
        if "regenerate" not in P.supports or P.kind == "dist":
            continue
        A = gfi.base_assume(P, in_range=False)
        for sn, sel in (("all", S.all()),) + tuple((str(s_.static_addr), S.at[s_.static_addr]) for s_ in P.sites[:1] if s_.static_addr):
            def fd(key, key2, args, vals, kfree, P=P, sel=sel):
                tr, _ = P.gf.importance(key, P.chm(vals), args)
                tr2, w, rd, bwd = Regenerate(sel).edit(key2, tr, Diff.no_change(args))
                newvals = gfi.trace_vals(P, tr2)
                with PG.record_leaves() as rec_new:
                    P.ref(args, newvals)
                with PG.record_leaves() as rec_old:
                    P.ref(args, vals)
                news, samples, olds = [], [], []
                for j, ((dist, params, v, g), (_, _, vo, _)) in enumerate(zip(rec_new, rec_old)):
                    smp = GJ[dist].simulate(jax.random.fold_in(kfree, j), tuple(params)).get_retval()
                    z = jnp.zeros_like(v)
                    news.append(jnp.where(g, v, z)); samples.append(jnp.where(g, smp, z)); olds.append(jnp.where(g, vo, z))
                return (news, olds), (samples, olds)

            def custom(interp, sym_args, outs, out_shape):
                import numpy as np

                n = len(outs) // 4
                news, olds, samples = outs[:n], outs[n:2 * n], outs[2 * n:3 * n]
                kroot = sym_args[4][()]
                real = [d for d in interp.draws if str(kroot) not in str(d.key)]
                cands = {}
                for d in real:
                    key_subterms(d.key, cands)
                cands = list(cands.values())
                diffs = []
                interp.symbolic_leaves = n
                for j in range(n):
                    kf = J.Key.fold_in(kroot, z3.IntVal(j))
                    for idx in np.ndindex(*news[j].shape):
                        x, y, o = J.lower(news[j][idx]), J.lower(samples[j][idx]), J.lower(olds[j][idx])
                        kind = "b" if (J.is_sym(x) and x.sort() == z3.BoolSort()) or isinstance(x, bool) else ("i" if (J.is_sym(x) and x.sort() == z3.IntSort()) or (isinstance(x, int) and not isinstance(x, bool)) else "f")
                        xt, yt, ot = J.zterm(x, kind), J.zterm(y, kind), J.zterm(o, kind)
                        alts = [xt == ot] + [xt == z3.substitute(yt, (kf, c)) for c in cands]
                        diffs.append((f"leaf {j}{list(idx)}: new value is neither the old value nor the leaf sampler on the reference parameters at the new trace's values", z3.Not(z3.Or(*alts))))
                return diffs

            def replay(args, P=P, sel=sel):
                key, key2, a, vals, _ = args
                tr, _ = P.gf.importance(key, P.chm(vals), a)
                tr2, w, rd, bwd = Regenerate(sel).edit(key2, tr, Diff.no_change(a))
                sc, rv = P.gf.assess(tr2.get_choices(), a)
                bad = not bool(jnp.allclose(sc, tr2.get_score(), atol=1e-4)) or not bool(jnp.allclose(w, tr2.get_score() - tr.get_score(), atol=1e-4))
                return bad, f"new trace score {tr2.get_score()} vs assess {sc}; weight {w} vs score change {tr2.get_score() - tr.get_score()}"

            obs.append(Ob(f"C07/redrawn-from-current-parents[{sn}]/{nm}", fd, (gfi.KEY, jax.random.key(1), P.args, P.example_vals(), jax.random.key(7)), assume=lambda k, k2, a, v, kf, A=A: A(a, v),
                          custom=custom, replay=replay, selfcheck=False, timeout_s=60,
                          note="every leaf of the regenerated trace is its old value or the leaf sampler applied to the reference parameters computed from the NEW trace's parent values (re-keyed draw atoms)"))
    return obs
