"""C07: regenerate resamples exactly the selected choices."""
import jax
import jax.numpy as jnp
import z3
from genjax import Diff, Regenerate
from genjax import Selection as S

from verif import gfi, programs as PG, jaxsmt as J
from verif.engine import Ob
from verif.props.c05 import view
from verif.props.c10 import sel_cases

LEVEL = "model_checking"
BOUNDS = {"programs": "catalogue programs accepting Regenerate (distributions, static functions over them, scan of such kernels, dimap/map/contramap)", "selections": "all, none, each site, complements, wildcard, unions"}
ASSUMPTIONS = ["'redrawn from the prior given current parents' is decided as: the new value's log-density term in the reference at the NEW trace's values accounts for the weight (weight = newscore - oldscore, both from the reference), and the new value is a draw atom whose key differs from every key used to build the old trace (key-separation query in the Key datatype)"]
OUTSIDE = ["combinators that reject Regenerate (vmap, switch, mask): recorded as not accepted", "distributional statement itself (trusted PRNG contract)"]


def obligations(tier, seed):
    cat, names = gfi.prog_names(tier)
    obs = []
    for nm in names:
        P = cat[nm]()
        if "regenerate" not in P.supports:
            continue
        A = gfi.base_assume(P, in_range=False)
        for sn, sel, member in sel_cases(P, tier):
            def f(key, key2, args, vals, P=P, sel=sel, member=member):
                tr, _ = P.gf.importance(key, P.chm(vals), args)
                tr2, w, rd, bwd = Regenerate(sel).edit(key2, tr, Diff.no_change(args))
                old, new = view(P, tr.get_choices()), view(P, tr2.get_choices())
                newvals = [g[0] if g[0] is not None else s.example for g, s in zip(P.read(tr2.get_choices()), P.sites)]
                r_old, r_new = P.ref(args, vals), P.ref(args, newvals)
                lhs, rhs = [w, tr2.get_score(), PG.norm_ret(P, tr2.get_retval())], [r_new.score - r_old.score, r_new.score, PG.norm_ret(P, r_new.retval)]
                for i, m in enumerate(member):
                    if not m:
                        lhs.append(new[i]); rhs.append(old[i])
                if not any(member):
                    lhs.append(PG.norm_ret(P, tr2.get_retval())); rhs.append(PG.norm_ret(P, tr.get_retval()))
                    lhs.append(w); rhs.append(jnp.float32(0.0))
                return lhs, rhs

            obs.append(Ob(f"C07/regenerate[{sn}]/{nm}", f, (gfi.KEY, jax.random.key(1), P.args, P.example_vals()), assume=lambda k, k2, a, v, A=A: A(a, v),
                          note="unselected sites unchanged; weight == reference newscore-oldscore; empty selection => same trace, weight 0"))
    return obs
