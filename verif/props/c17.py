"""C17: choice map queries agree with a finite-map model."""
import jax
import jax.numpy as jnp
from genjax import ChoiceMap, Mask
from genjax import ChoiceMapBuilder as C
from genjax import Selection as S

from verif.engine import Ob

LEVEL = "model_checking"
BOUNDS = {
    "constructions": "d / kw / entry / extend / at[..].set / | (left-biased) / switch / mask / filter / get_submap / vmapped builders, nested to depth <= 3 over the alphabet {x, y, z}, with scalar dynamic indices, arange index arrays (length 3) and vmapped (length 3) builders",
    "symbolic": "every leaf value, every traced flag, every switch index (ALL integers), every dynamic index used to build or to look up (ALL integers)",
    "lookups": "every static path of length <= 2 over the alphabet (present and absent ones), with and without a dynamic index prefix; via get_submap(..).get_value(), [], `in`, get_selection membership",
}
ASSUMPTIONS = ["reference model RefMap (this file): an ordered list of guarded entries (static path, index pattern, guard, value); union = concatenation (left-biased lookup), mask(f) conjoins f to guards, switch conjoins idx == k, extend prefixes paths, filter keeps the statically selected paths, a lookup returns the first matching entry",
               "static facts (ChoiceMapNoValueAtAddress vs absent, static_is_empty, get_selection membership of static paths) have no value-level input: they are evaluated per construction and compared as constants"]
OUTSIDE = ["partial slices (rejected by the API)", "array-valued lookup indices", "depth > 3"]

F = lambda v: jnp.asarray(v, jnp.float32)  # noqa: E731
ALPHA = ("x", "y", "z")
PATHS = [(a,) for a in ALPHA] + [(a, b) for a in ("x", "y") for b in ("y", "z")]


# ---- reference finite map ---------------------------------------------------------------------------------------


class RM:
    """ordered guarded entries: (path, ikind, iarg, guard, value); ikind in {None, 'eq', 'vec'}"""

    def __init__(self, entries=()):
        self.e = list(entries)

    @staticmethod
    def leaf(v):
        return RM([((), None, None, True, v)])

    def extend(self, *comps):
        out = self
        for c in reversed(comps):
            if isinstance(c, str):
                out = RM([((c,) + p, ik, ia, g, v) for p, ik, ia, g, v in out.e])
            elif isinstance(c, tuple) and c[0] == "eq":  # scalar dynamic index
                out = RM([(p, "eq", c[1], g, v) for p, ik, ia, g, v in out.e])
            elif isinstance(c, tuple) and c[0] == "vec":  # index array arange(n): leaf values have a leading axis n
                out = RM([(p, "vec", c[1], g, v) for p, ik, ia, g, v in out.e])
            else:
                raise ValueError(c)
        return out

    def __or__(self, other):
        return RM(self.e + other.e)

    def mask(self, f):
        return RM([(p, ik, ia, jnp.logical_and(g, f), v) for p, ik, ia, g, v in self.e])

    @staticmethod
    def switch(idx, maps):
        out = []
        for k, m in enumerate(maps):
            out += m.mask(idx == k).e
        return RM(out)

    def filter(self, paths_kept):
        return RM([e for e in self.e if e[0] in paths_kept])

    def submap(self, *comps):
        n = len(comps)
        return RM([(p[n:], ik, ia, g, v) for p, ik, ia, g, v in self.e if p[:n] == tuple(comps)])

    def lookup(self, path, idx=None):
        """(valid, value) at static path `path` with optional scalar dynamic index `idx`"""
        valid, value = jnp.array(False), None
        for p, ik, ia, g, v in reversed(self.e):
            if p != tuple(path):
                continue
            if ik is None:
                if idx is not None:
                    if jnp.ndim(v) == 0:
                        raise ValueError("a dynamic index on a scalar un-indexed leaf is not specified (the real map raises IndexError)")
                    cond, val = g, jnp.asarray(v)[idx]  # index levels address array elements of un-indexed (vectorised) entries
                else:
                    cond, val = g, v
            elif ik == "eq":
                if idx is None:
                    continue
                cond, val = jnp.logical_and(g, ia == idx), v
            else:  # vec
                if idx is None:
                    continue
                inr = jnp.logical_and(idx >= 0, idx < ia)
                cond = jnp.logical_and(jnp.asarray(g), inr)
                val = jnp.asarray(v)[jnp.clip(idx, 0, ia - 1)]
            cond = jnp.asarray(cond)
            value = val if value is None else jnp.where(cond, val, value)
            valid = jnp.logical_or(cond, valid) if value is not None else cond
        return valid, value

    def static_has(self, path, indexed):
        return any(p == tuple(path) and (indexed or ik is None) for p, ik, ia, g, v in self.e)

    def static_paths(self):
        return sorted({p for p, *_ in self.e})


# ---- observation of the real choice map ---------------------------------------------------------------------------


def observe(chm, path, idx=None):
    """(valid flag, value or 0) through get_submap(..).get_value(); None value -> (False, 0)"""
    addr = tuple(path) if idx is None else (idx,) + tuple(path)
    sub = chm.get_submap(*addr) if addr else chm
    v = sub.get_value()
    if v is None:
        return None
    if isinstance(v, Mask):
        return jnp.asarray(v.primal_flag()), v.value
    return jnp.array(True), v


def compare(chm, ref, paths, idxs, like):
    """lhs/rhs lists over all lookups; statically absent on both sides contributes nothing; a static mismatch is a constant False"""
    lhs, rhs = [], []
    for p in paths:
        for idx in idxs:
            got = observe(chm, p, idx)
            rv, rval = ref.lookup(p, idx)
            if got is None and rval is None:
                continue
            if got is None:
                # statically absent in the real map: the model must be invalid for all inputs
                lhs.append(jnp.array(False)); rhs.append(rv)
                continue
            gv, gval = got
            if rval is None:
                lhs.append(gv); rhs.append(jnp.array(False))
                continue
            lhs.append(gv); rhs.append(rv)
            z = jnp.zeros_like(jnp.asarray(rval, dtype=like.dtype))
            lhs.append(jnp.where(rv, gval, z)); rhs.append(jnp.where(rv, rval, z))
            # `in` is static presence: there is a (possibly masked) value at the address
            addr = tuple(p) if idx is None else (idx,) + tuple(p)
            lhs.append(jnp.int32(bool(addr in chm))); rhs.append(jnp.int32(ref.static_has(p, idx is not None)))
    return lhs, rhs


def sel_members(chm, paths):
    sel = chm.get_selection()
    return [jnp.int32(bool(sel[p])) for p in paths]


def obligations(tier, seed):
    obs = []
    v1, v2, v3 = F(0.3), F(-1.2), F(2.5)
    vec = jnp.asarray([0.5, 1.5, 2.5], jnp.float32)
    T = jnp.array(True)
    I = jnp.int32(1)

    def add(name, build, args, idxs=(None,), assume=None, note=""):
        """build(*args) -> (real choice map, RefMap)"""
        def f(*a):
            chm, ref = build(*a)
            lhs, rhs = compare(chm, ref, PATHS, idxs_of(a), a[0] if not isinstance(a[0], tuple) else v1)
            lhs.append(jnp.int32(chm.static_is_empty())); rhs.append(jnp.int32(len(ref.e) == 0))
            return lhs, rhs

        def fsel(*a):
            # static facts: selection membership of static paths (index levels are transparent to selections)
            chm, ref = build(*a)
            sp = ref.static_paths()
            return sel_members(chm, PATHS), [jnp.int32(p in sp) for p in PATHS]

        def idxs_of(a):
            return [None if i is None else a[i] for i in idxs]

        obs.append(Ob(f"C17/lookups/{name}", f, args, assume=assume, timeout_s=60, note=note or "every lookup (validity flag, value where valid, `in`) == reference finite map; emptiness as a constant"))
        obs.append(Ob(f"C17/selection/{name}", fsel, args, assume=assume, timeout_s=60, note="get_selection() selects exactly the static parts of the map's addresses (a structural fact: compared as constants)"))

    # ---- static constructions
    add("set|set", lambda a, b: (C["x"].set(a) | C["y", "z"].set(b), RM.leaf(a).extend("x") | RM.leaf(b).extend("y", "z")), (v1, v2))
    add("kw", lambda a, b: (C.kw(x=a, y=b), RM.leaf(a).extend("x") | RM.leaf(b).extend("y")), (v1, v2))
    add("d-nested", lambda a, b, c: (C.d({"x": a, ("y", "z"): b, ("x2",): c}) if False else C.d({"x": a, "y": C.d({"z": b, "y": c})}),
                                     RM.leaf(a).extend("x") | RM.leaf(b).extend("y", "z") | RM.leaf(c).extend("y", "y")), (v1, v2, v3))
    add("entry+extend", lambda a, b: (ChoiceMap.entry(a, "y", "z") | ChoiceMap.value(b).extend("x"), RM.leaf(a).extend("y", "z") | RM.leaf(b).extend("x")), (v1, v2))
    add("at-set", lambda a, b: (C["x"].set(a).at["y", "y"].set(b), RM.leaf(b).extend("y", "y") | RM.leaf(a).extend("x")), (v1, v2))
    add("left-biased-union", lambda a, b: (C["x"].set(a) | C["x"].set(b), RM.leaf(a).extend("x") | RM.leaf(b).extend("x")), (v1, v2), note="| is a left-biased union: the left value wins")
    # ---- masks
    add("mask(flag)", lambda a, b, f: ((C["x"].set(a) | C["y", "z"].set(b)).mask(f), (RM.leaf(a).extend("x") | RM.leaf(b).extend("y", "z")).mask(f)), (v1, v2, T))
    add("mask(flag)|set", lambda a, b, f: (C["x"].set(a).mask(f) | C["x"].set(b), RM.leaf(a).extend("x").mask(f) | RM.leaf(b).extend("x")), (v1, v2, T), note="masked left operand falls through to the right one exactly when the flag is false")
    add("mask(False)", lambda a: (C["x"].set(a).mask(False), RM()), (v1,), note="mask(False) empties the map")
    add("nested-masks", lambda a, f, g: (C["x"].set(a).mask(f).extend("y").mask(g), RM.leaf(a).extend("x").mask(f).extend("y").mask(g)), (v1, T, T))
    # ---- switch with ALL integer indices
    add("switch", lambda a, b, c, i: (C.switch(i, [C["x"].set(a), C["y", "z"].set(b) | C["x"].set(c)]),
                                      RM.switch(i, [RM.leaf(a).extend("x"), RM.leaf(b).extend("y", "z") | RM.leaf(c).extend("x")])), (v1, v2, v3, I),
        note="switch(idx, chms): entries of chm k are valid iff idx == k, for all integers idx")
    add("switch|set", lambda a, b, c, i: (C.switch(i, [C["x"].set(a), C["y"].set(b)]) | C["x"].set(c),
                                          RM.switch(i, [RM.leaf(a).extend("x"), RM.leaf(b).extend("y")]) | RM.leaf(c).extend("x")), (v1, v2, v3, I))
    add("set|switch", lambda a, b, c, i: (C["x"].set(c) | C.switch(i, [C["x"].set(a), C["y"].set(b)]),
                                          RM.leaf(c).extend("x") | RM.switch(i, [RM.leaf(a).extend("x"), RM.leaf(b).extend("y")])), (v1, v2, v3, I),
        note="switch as the RIGHT operand of |: the left map's value wins at shared addresses")
    add("masked-set|switch", lambda a, b, c, i, f: (C["x"].set(c).mask(f) | C.switch(i, [C["x"].set(a), C["y"].set(b)]),
                                                  RM.leaf(c).extend("x").mask(f) | RM.switch(i, [RM.leaf(a).extend("x"), RM.leaf(b).extend("y")])), (v1, v2, v3, I, T),
        assume=lambda a, b, c, i, f: [i[()] >= 0, i[()] <= 1], note="masked left operand falls through to the active switch branch (in-range indices)")
    # ---- filter / get_submap
    add("filter(at[x])", lambda a, b: ((C["x"].set(a) | C["y", "z"].set(b)).filter(S.at["x"]), (RM.leaf(a).extend("x") | RM.leaf(b).extend("y", "z")).filter({("x",)})), (v1, v2))
    add("filter(~at[x])", lambda a, b: ((C["x"].set(a) | C["y", "z"].set(b)).filter(~S.at["x"]), (RM.leaf(a).extend("x") | RM.leaf(b).extend("y", "z")).filter({("y", "z")})), (v1, v2))
    add("filter(at[y,z]|at[x])-masked", lambda a, b, f: ((C["x"].set(a).mask(f) | C["y", "z"].set(b) | C["y", "y"].set(a)).filter(S.at["y", "z"] | S.at["x"]),
                                                        (RM.leaf(a).extend("x").mask(f) | RM.leaf(b).extend("y", "z") | RM.leaf(a).extend("y", "y")).filter({("x",), ("y", "z")})), (v1, v2, T))
    add("get_submap(y)", lambda a, b, c: ((C["x"].set(a) | C["y", "z"].set(b) | C["y", "y"].set(c)).get_submap("y").extend("x"),
                                          (RM.leaf(a).extend("x") | RM.leaf(b).extend("y", "z") | RM.leaf(c).extend("y", "y")).submap("y").extend("x")), (v1, v2, v3))
    # ---- dynamic indices: built at symbolic index i0, looked up at symbolic index j (ALL integers)
    inr = lambda pos: (lambda *a: [a[pos][()] >= 0, a[pos][()] < 3])  # noqa: E731
    add("scalar-index", lambda a, vv, i0, j: (C[i0, "x"].set(a) | C["y"].set(vv), RM.leaf(a).extend("x").extend(("eq", i0)) | RM.leaf(vv).extend("y")), (v1, vec, I, jnp.int32(2)), idxs=(None, 3), assume=inr(3),
        note="C[i0, 'x'].set(a) looked up at [j, 'x']: valid iff j == i0 (all integers i0); a dynamic index on the un-indexed vector entry addresses its element j (0 <= j < 3)")
    add("arange-index", lambda vv, j: (C[jnp.arange(3), "x"].set(vv), RM.leaf(vv).extend("x").extend(("vec", 3))), (vec, jnp.int32(2)), idxs=(1,),
        note="index-array entry looked up at a scalar j: valid iff 0 <= j < 3, value vv[j]")
    add("vmapped-builder", lambda vv, j: (jax.vmap(lambda e: C["x"].set(e))(vv), RM.leaf(vv).extend("x")), (vec, jnp.int32(2)), idxs=(None, 1), assume=inr(1),
        note="jax.vmap of a builder gives a vectorised (un-indexed) map: a dynamic index j addresses element j (0 <= j < 3)")
    add("vmapped-entry-idx", lambda vv, j: (jax.vmap(lambda i, e: ChoiceMap.entry(e, i, "x"))(jnp.arange(3), vv), RM.leaf(vv).extend("x").extend(("vec", 3))), (vec, jnp.int32(2)), idxs=(1,))
    # ---- retained Or nodes (operands with index levels are not merged eagerly): the left bias must survive filter / mask / at-set
    ior = lambda a, b, i0, i1: C[i0, "x"].set(a) | C[i1, "x"].set(b)  # noqa: E731
    ior_ref = lambda a, b, i0, i1: RM.leaf(a).extend("x").extend(("eq", i0)) | RM.leaf(b).extend("x").extend(("eq", i1))  # noqa: E731
    i4 = (v1, v2, I, jnp.int32(0), jnp.int32(2))
    add("indexed|indexed", lambda a, b, i0, i1, j: (ior(a, b, i0, i1), ior_ref(a, b, i0, i1)), i4, idxs=(4,),
        note="C[i0,'x'].set(a) | C[i1,'x'].set(b) at [j,'x'] for ALL integers i0, i1, j: a when j == i0 (also when i0 == i1), else b when j == i1")
    add("filter(indexed|indexed)", lambda a, b, i0, i1, j: (ior(a, b, i0, i1).filter(S.at["x"]), ior_ref(a, b, i0, i1)), i4, idxs=(4,),
        note="filter on a retained Or keeps the left bias")
    add("mask(indexed|indexed)", lambda a, b, i0, i1, f, j: (ior(a, b, i0, i1).mask(f), ior_ref(a, b, i0, i1).mask(f)), (v1, v2, I, jnp.int32(0), T, jnp.int32(2)), idxs=(5,),
        note="mask on a retained Or keeps the left bias")
    add("filter(at-set-on-indexed)", lambda a, b, c, i0, j: ((C[i0, "x"].set(a) | C[i0, "y"].set(b)).at[i0, "x"].set(c).filter(S.at["x"]),
                                                           (RM.leaf(c).extend("x").extend(("eq", i0)) | RM.leaf(a).extend("x").extend(("eq", i0)))), (v1, v2, v3, I, jnp.int32(2)), idxs=(4,),
        note=".at[i0,'x'].set(c) overrides the earlier value at that address, also after a filter")
    add("index-masked",lambda vv, f, j: (C[jnp.arange(3), "x"].set(vv).mask(f) | C["y"].set(vv * 2.0), (RM.leaf(vv).extend("x").extend(("vec", 3)).mask(f)) | RM.leaf(vv * 2.0).extend("y")), (vec, T, jnp.int32(2)), idxs=(None, 2), assume=inr(2))
    return obs
