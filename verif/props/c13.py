"""C13: switch, or_else and mix follow exactly one branch consistently."""
import jax
import jax.numpy as jnp
from genjax import Diff, Update

from verif import gfi, programs as PG
from verif.engine import Ob

LEVEL = "model_checking"
BOUNDS = {"branch lists": "2 and 3 branches; heterogeneous addresses, shared addresses, hierarchical addresses, a vmapped branch, different return computations", "index": "ALL integers (no range assumption: negative and >= n are clamped)",
          "operations": "assess, simulate, importance(S), update(S, args'), per-branch oracle"}
ASSUMPTIONS = ["reference: branch clamp(idx,0,n-1) alone; or_else(flag) = if-branch when flag else else-branch; mix score = categorical log-prob of the component + the component's score"]
OUTSIDE = ["branches whose shared address has different shapes (rejected by the choice-map algebra)", "more than 3 branches"]


def obligations(tier, seed):
    cat = PG.catalogue()
    obs = []
    names = ["switch(inner1,inner2)", "switch(inner1,inner2s)", "switch3", "switch(inner1,inner3)", "or_else(inner1,inner2s)", "or_else(inner1,inner2)", "mix(inner1,inner2)", "static(switch)"]
    if tier == "thorough":
        names += ["switch(static(vmap),inner3)", "vmap(switch)"]
    for nm in names:
        obs += gfi.family("C13", nm, cat[nm](), tier)
    # ---- per-branch oracle: switch with concrete k behaves as branch k alone (the branch's own GFI)
    for nm in ["switch(inner1,inner2)", "switch3"]:
        P = cat[nm]()
        branches = P.meta["branches"]
        maps = P.meta["maps"]
        n = len(branches)

        def f(key, args, vals, P=P, branches=branches, maps=maps, n=n):
            sc, rv = P.gf.assess(P.chm(vals), args)
            tr, w = P.gf.importance(key, P.chm(vals), args)
            k = jnp.clip(args[0], 0, n - 1)
            bs = [b.gf.assess(b.chm([vals[j] for j in m]), tuple(ba)) for b, ba, m in zip(branches, args[1:], maps)]
            esc = sum(jnp.where(k == i, bs[i][0], 0.0) for i in range(n))
            erv = sum(jnp.where(k == i, bs[i][1], 0.0) for i in range(n))
            return (sc, rv, tr.get_score(), w, tr.get_retval()), (esc, erv, esc, esc, erv)

        obs.append(Ob(f"C13/branch-oracle/{nm}", f, (gfi.KEY, P.args, P.example_vals()), assume=gfi.base_assume(P, in_range=False) and (lambda k, a, v, P=P: P.assume(*a)),
                      note="score/retval/weight equal those of branch clamp(idx) called directly, for every integer idx"))
    # ---- index change by update: new trace is the new branch's
    P = cat["switch(inner1,inner3)"]()

    def g(key, args, vals, newidx, P=P):
        tr, _ = P.gf.importance(key, P.chm(vals), args)
        new_args = (newidx,) + tuple(args[1:])
        tr2, w, rd, bwd = Update(P.chm(vals)).edit(key, tr, (Diff.unknown_change(newidx),) + tuple(Diff.no_change(a) for a in args[1:]))
        r_old, r_new = P.ref(args, vals), P.ref(new_args, vals)
        lhs, rhs = gfi.full_view(P, tr2)
        return lhs + [w], rhs + [r_new.score - r_old.score]

    obs.append(Ob("C13/update-index-change/switch(inner1,inner3)", g, (gfi.KEY, P.args, P.example_vals(), jnp.int32(1)),
                  note="update that changes the (symbolic) index with every site constrained: trace == reference for the new index, weight == newscore-oldscore"))
    return obs
