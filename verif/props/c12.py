"""C12: scan and its derived combinators match the documented Python loops."""
from verif import gfi, programs as PG

LEVEL = "model_checking"
BOUNDS = {"kernels": "walk (1 site), kern2 (2 sites, flip-dependent output), static(vmap) kernel, accumulate/reduce/iterate/iterate_final kernels", "length": "2..3 (scan length is static: unrolling is exact)",
          "operations": "assess, simulate, importance(S), update(S, args'), regenerate(sel), IndexRequest(i symbolic in [0,n), Update(site))"}
ASSUMPTIONS = ["reference = the documented Python loops, written in plain JAX without GenJAX combinators (verif/programs.py)"]
OUTSIDE = ["lengths > 3", "index edits whose sub-request changes the carry of later iterations (Scan.edit_index asserts this away)"]


def obligations(tier, seed):
    cat = PG.catalogue()
    names = ["scan(walk)", "scan(kern2)", "static(scan)"] + (["vmap(scan)", "scan(static(vmap))", "mask(scan)"] if tier == "thorough" else [])
    obs = []
    for nm in names:
        obs += gfi.family("C12", nm, cat[nm](), tier)
    dc = PG.derived_catalogue()
    for nm in ["accumulate(accf)", "reduce(accf)", "iterate(step)", "iterate_final(step)", "iterate_final(stepdet)"]:
        ops = ("assess", "simulate", "importance", "update") if tier == "thorough" else ("assess", "simulate", "update")
        obs += gfi.family("C12", nm, dc[nm](), tier, ops=ops)
    return obs
