"""C12: scan and its derived combinators match the documented Python loops."""
from verif import gfi, programs as PG

LEVEL = "model_checking"
BOUNDS = {"kernels": "walk (1 site), kern2 (2 sites, flip-dependent output), static(vmap) kernel, accumulate/reduce/iterate/iterate_final kernels", "length": "2..3 (scan length is static: unrolling is exact)",
          "operations": "assess, simulate, importance(S), update(S, args'), regenerate(sel), IndexRequest(i symbolic in [0,n), Update(site))"}
ASSUMPTIONS = ["reference = the documented Python loops, written in plain JAX without GenJAX combinators (verif/programs.py)"]
OUTSIDE = ["lengths > 3", "index edits whose sub-request changes the carry of later iterations (Scan.edit_index asserts this away)"]


def obligations(tier, seed):
    cat = PG.catalogue()
    names = ["scan(walk)", "scan(kern2)", "scan(kernX)", "static(scan)"] + (["vmap(scan)", "scan(static(vmap))", "mask(scan)"] if tier == "thorough" else [])
    obs = []
    for nm in names:
        obs += gfi.family("C12", nm, cat[nm](), tier)
    # regenerate issued with CHANGED scan arguments (new initial carry and new scanned inputs): unselected sites keep their
    # values and are re-scored under the new inputs; the trace == the documented loop on the new arguments
    from genjax import Diff, Regenerate
    from genjax import Selection as S
    import jax
    import jax.numpy as jnp
    from verif.engine import Ob

    for nm in ["scan(walk)", "scan(kern2)", "scan(kernX)"]:
        P = cat[nm]()
        A = gfi.base_assume(P, in_range=False)
        args2 = jax.tree_util.tree_map(lambda x: x + 0.25 if jnp.issubdtype(jnp.asarray(x).dtype, jnp.floating) else x, P.args)
        for sn, sel in [("none", S.none()), ("last-site", S.at[P.sites[-1].static_addr]), ("all", S.all())]:
            def fr(key, key2, args, vals, args2, P=P, sel=sel):
                tr, _ = P.gf.importance(key, P.chm(vals), args)
                tr2, w, rd, bwd = Regenerate(sel).edit(key2, tr, Diff.unknown_change(args2))
                lhs, rhs = gfi.full_view(P, tr2)
                r_old = P.ref(args, vals)
                r_new = P.ref(args2, gfi.trace_vals(P, tr2))
                return lhs + [w, tr2.get_args()], rhs + [r_new.score - r_old.score, args2]

            obs.append(Ob(f"C12/regenerate[{sn}]+args=ref/{nm}", fr, (gfi.KEY, jax.random.key(1), P.args, P.example_vals(), args2), assume=lambda k, k2, a, v, a2, A=A: A(a, v) + A(a2),
                          note="Regenerate on a scan with a changed initial carry and changed scanned inputs: trace == loop on the new arguments at its own values, weight == score change"))
    dc = PG.derived_catalogue()
    for nm in ["accumulate(accf)", "reduce(accf)", "iterate(step)", "iterate_final(step)", "iterate_final(stepdet)"]:
        ops = ("assess", "simulate", "importance", "update") if tier == "thorough" else ("assess", "simulate", "update")
        obs += gfi.family("C12", nm, dc[nm](), tier, ops=ops)
    return obs
