"""C28: HMC proposals follow leapfrog dynamics and return the MH log ratio."""
import functools

import jax
import jax.numpy as jnp
import genjax
from genjax import ChoiceMapBuilder as C
from genjax import Diff
from genjax import Selection as S
from genjax.inference.requests import HMC, SafeHMC
from genjax._src.inference.requests import hmc as hmc_mod
from tensorflow_probability.substrates import jax as tfp

from verif.engine import KnownDeviation, Ob

tfd = tfp.distributions

LEVEL = "model_checking"
BOUNDS = {
    "models": "gauss (x~N(0,1), y~N(x,.5)); nonlin (x~N(0,1), y~N(x*x,1)); pair (x1~N(0,1), x2~N(x1,1), y~N(x1+x2,.5)); scan2 (2-step random walk with observations); vec (x~mv_normal_diag length 2)",
    "selections": "the single latent, both latents, one of two latents (the other must stay put), all",
    "L": "1, 2, 3 (quick: 1, 2; the nonlinear model: 1 in quick, up to 2 in thorough)",
    "symbolic": "start values, observed values, step size eps, the momentum draw (uninterpreted function of the key)",
}
ASSUMPTIONS = [
    "the momentum is whatever hmc.normal_sample returns (harness records its outputs at trace time; they are uninterpreted draw atoms of the key in the encoding)",
    "reference: textbook leapfrog (Neal 2011, 5.18-5.20) written in plain JAX with jax.grad of a hand-written log joint (tfd log_prob), scales are concrete constants so the identities are polynomial in (x, obs, eps, m)",
    "lemma (not checked): exact leapfrog + alpha = H(start)-H(end) implies invariance of the target under accept/reject",
]
OUTSIDE = ["non-Gaussian models, L > 3, symbolic scale parameters"]

KEY = jax.random.key(0)
F = lambda v: jnp.asarray(v, jnp.float32)  # noqa: E731


def lp_normal(v, mu, sigma):
    return jnp.sum(tfd.Normal(mu, sigma).log_prob(v))


# ---- models: (gen fn, args, latent names, obs names, log joint over dict, example values)


@genjax.gen
def gauss():
    x = genjax.normal(0.0, 1.0) @ "x"
    y = genjax.normal(x, 0.5) @ "y"
    return y


def lj_gauss(v):
    return lp_normal(v["x"], 0.0, 1.0) + lp_normal(v["y"], v["x"], 0.5)


@genjax.gen
def nonlin():
    x = genjax.normal(0.0, 1.0) @ "x"
    y = genjax.normal(x * x, 1.0) @ "y"
    return y


def lj_nonlin(v):
    return lp_normal(v["x"], 0.0, 1.0) + lp_normal(v["y"], v["x"] * v["x"], 1.0)


@genjax.gen
def pair():
    x1 = genjax.normal(0.0, 1.0) @ "x1"
    x2 = genjax.normal(x1, 1.0) @ "x2"
    y = genjax.normal(x1 + x2, 0.5) @ "y"
    return y


def lj_pair(v):
    return lp_normal(v["x1"], 0.0, 1.0) + lp_normal(v["x2"], v["x1"], 1.0) + lp_normal(v["y"], v["x1"] + v["x2"], 0.5)


@genjax.gen
def vec():
    x = genjax.mv_normal_diag(jnp.zeros(2), jnp.ones(2)) @ "x"
    y = genjax.normal(x[0] + 2.0 * x[1], 0.5) @ "y"
    return y


def lj_vec(v):
    return jnp.sum(tfd.MultivariateNormalDiag(jnp.zeros(2), jnp.ones(2)).log_prob(v["x"])) + lp_normal(v["y"], v["x"][0] + 2.0 * v["x"][1], 0.5)


@genjax.gen
def _walk(z, _):
    z = genjax.normal(z, 1.0) @ "x"
    _ = genjax.normal(z, 0.5) @ "y"
    return z, None


scan2 = _walk.scan(n=2)


def lj_scan2(v):
    x, y = v["x"], v["y"]
    return lp_normal(x[0], 0.0, 1.0) + lp_normal(x[1], x[0], 1.0) + lp_normal(y[0], x[0], 0.5) + lp_normal(y[1], x[1], 0.5)


MODELS = {
    # name: (gf, args, chm builder, logjoint, example values, {selection name: (Selection, moved names)})
    "gauss": (gauss, (), lambda v: C.kw(**v), lj_gauss, {"x": F(0.3), "y": F(1.1)}, {"x": (S.at["x"], ("x",))}),
    "nonlin": (nonlin, (), lambda v: C.kw(**v), lj_nonlin, {"x": F(0.3), "y": F(1.1)}, {"x": (S.at["x"], ("x",))}),
    "pair": (pair, (), lambda v: C.kw(**v), lj_pair, {"x1": F(0.3), "x2": F(-0.2), "y": F(1.1)},
             {"x1": (S.at["x1"], ("x1",)), "x2": (S.at["x2"], ("x2",)), "x1|x2": (S.at["x1"] | S.at["x2"], ("x1", "x2"))}),
    "vec": (vec, (), lambda v: C.kw(**v), lj_vec, {"x": jnp.asarray([0.3, -0.4], jnp.float32), "y": F(1.1)}, {"x": (S.at["x"], ("x",))}),
    "scan2": (scan2, (F(0.0), None), lambda v: C["x"].set(v["x"]) | C["y"].set(v["y"]), lj_scan2,
              {"x": jnp.asarray([0.3, -0.4], jnp.float32), "y": jnp.asarray([1.1, 0.7], jnp.float32)}, {"x": (S.at["x"], ("x",))}),
}


def leapfrog(lj, vals, moved, momenta, eps, L, stale_first_half_step=False):
    """Neal (2011) eqs. 5.18-5.20, every half step with the gradient at the current position.

    stale_first_half_step=True is the recorded deviation F-C28-stale-gradient: the first half step of every
    leapfrog step uses the gradient at the START position instead of the current one."""

    def U_grad(q):
        return jax.grad(lambda qq: lj({**vals, **qq}))(q)

    q = {k: vals[k] for k in moved}
    p = dict(momenta)
    g0 = U_grad(q)
    for _ in range(L):
        g = g0 if stale_first_half_step else U_grad(q)
        p = {k: p[k] + (eps / 2) * g[k] for k in moved}
        q = {k: q[k] + eps * p[k] for k in moved}
        g = U_grad(q)
        p = {k: p[k] + (eps / 2) * g[k] for k in moved}
    new_vals = {**vals, **q}
    k0 = sum(jnp.sum(tfd.Normal(0.0, 1.0).log_prob(momenta[k])) for k in moved)
    k1 = sum(jnp.sum(tfd.Normal(0.0, 1.0).log_prob(-p[k])) for k in moved)
    alpha = lj(new_vals) - lj(vals) + k1 - k0
    return new_vals, alpha


def run_hmc(req, key, tr, args):
    """Real HMC.edit with the momentum draws recorded (environment stub: the sampler's outputs are observed, not replaced)."""
    rec = []
    orig = hmc_mod.normal_sample

    def recording(key_, shape):
        m = orig(key_, shape)
        rec.append(m)
        return m

    hmc_mod.normal_sample = recording
    try:
        out = req.edit(key, tr, Diff.no_change(args))
    finally:
        hmc_mod.normal_sample = orig
    return out, rec


def obligations(tier, seed):
    obs = []
    Ls = (1, 2) if tier == "quick" else (1, 2, 3)
    for mn, (gf, args, mk, lj, ex, sels) in MODELS.items():
        names = list(ex)
        for sn, (sel, moved) in sels.items():
            for L in Ls:
                if mn == "nonlin" and L > (1 if tier == "quick" else 2):
                    continue  # degree grows as 2^L for the quadratic mean: L=2 takes minutes (thorough only)
                for safe in ((False, True) if (mn == "gauss" and L == 1) else (False,)):
                    def f(key, vals, eps, gf=gf, args=args, mk=mk, lj=lj, sel=sel, moved=moved, L=L, names=names, safe=safe, stale=False):
                        tr, _ = gf.importance(key, mk(vals), args)
                        req = SafeHMC(sel, eps, L) if safe else HMC(sel, eps, L)
                        (tr2, alpha, rd, bwd), rec = run_hmc(req, jax.random.fold_in(key, 1), tr, args)
                        assert len(rec) == len(moved), (len(rec), moved)
                        momenta = dict(zip(sorted(moved), rec)) if len(rec) > 1 else {moved[0]: rec[0]}
                        new_vals, ref_alpha = leapfrog(lj, vals, moved, momenta, eps, L, stale)
                        ch = tr2.get_choices()
                        got = {n: (ch[n] if mn_plain(gf) else ch[:, n]) for n in names}
                        sc, rv = gf.assess(ch, args)
                        lhs = (got, alpha, tr2.get_score(), tr2.get_score())
                        rhs = (new_vals, ref_alpha, lj(new_vals), sc)
                        return lhs, rhs

                    nm = f"C28/leapfrog[L={L},{sn}{',safe' if safe else ''}]/{mn}"
                    kw = dict(mode="exact", timeout_s=15 if tier == "quick" else 120, assume=lambda k, v, e: [e[()] > 0, e[()] <= 1])
                    ob = Ob(nm, f, (KEY, ex, F(0.1)), note="selected values == L leapfrog steps from the recorded momentum; unselected unchanged; alpha == H(start)-H(end); trace score == log joint at the new values == assess", **kw)
                    if L >= 2:
                        dev = Ob(nm + "#deviant", functools.partial(f, stale=True), (KEY, ex, F(0.1)), note="same, reference with the recorded stale-gradient defect", **kw)
                        ob = KnownDeviation(ob, dev, "F-C28-stale-gradient")
                    obs.append(ob)
    return obs


def mn_plain(gf):
    return gf is not scan2
