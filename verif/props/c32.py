"""C32: generative function closures and keyword handling are transparent."""
import jax
import jax.numpy as jnp
import genjax
from genjax import ChoiceMapBuilder as C
from genjax import Diff, Update, gen
from genjax import Selection as S

from verif import gfi
from verif.engine import Ob

LEVEL = "model_checking"
BOUNDS = {"programs": "a 3-argument static model (dependent sites, one keyword-able parameter), normal distribution", "splits": "every stored/extra split of the positional arguments (0..3 stored), keyword argument stored in the closure, partial_apply with 1 and 2 stored arguments",
          "methods": "simulate, assess, importance, project, edit(Update) with changed extra arguments, Trace.update through the closure's trace, handle_kwargs vs positional call"}
ASSUMPTIONS = ["both sides run the same real code with the same key (same draw atoms)"]
OUTSIDE = ["closures over combinators other than static functions and distributions"]

F = lambda v: jnp.asarray(v, jnp.float32)  # noqa: E731


@gen
def model(x, y, s):
    a = genjax.normal(x + y, s) @ "a"
    b = genjax.normal(a * x, 1.0) @ "b"
    return a * y + b


def view(tr):
    ch = tr.get_choices()
    return (tr.get_score(), tr.get_retval(), ch["a"], ch["b"], tr.get_args())


def obligations(tier, seed):
    obs = []
    full = (F(0.3), F(1.2), F(0.8))
    pos = lambda k, a, v, *r: [a[2][()] > 0]  # noqa: E731

    for nstored in range(4):
        def mk(nstored=nstored):
            def sim(key, a, vals):
                clo = model(*a[:nstored])
                extra = tuple(a[nstored:])
                t1, t2 = clo.simulate(key, extra), model.simulate(key, a)
                chm = C["a"].set(vals[0]) | C["b"].set(vals[1])
                as1, as2 = clo.assess(chm, extra), model.assess(chm, a)
                i1, i2 = clo.importance(key, C["b"].set(vals[1]), extra), model.importance(key, C["b"].set(vals[1]), a)
                p1, p2 = clo.project(key, t1, S.at["a"]), model.project(key, t2, S.at["a"])
                return (view(t1), as1, view(i1[0]), i1[1], p1), (view(t2), as2, view(i2[0]), i2[1], p2)

            def edit(key, a, vals, a2):
                clo = model(*a[:nstored])
                extra, extra2 = tuple(a[nstored:]), tuple(a2[nstored:])
                new_full = tuple(a[:nstored]) + extra2
                tr = model.simulate(key, a)
                chm = C["a"].set(vals[0])
                r1 = clo.edit(key, tr, Update(chm), Diff.unknown_change(extra2))
                r2 = model.edit(key, tr, Update(chm), Diff.unknown_change(new_full))
                return (view(r1[0]), r1[1], Diff.tree_primal(r1[2])), (view(r2[0]), r2[1], Diff.tree_primal(r2[2]))

            def edit_move(key, a, vals, a2):
                """the closure's stored arguments differ from the ones the trace was made with: editing through the closure
                moves the trace to the closure's stored arguments (here with a Regenerate that does not select the site they feed)"""
                from genjax import Regenerate

                clo = model(*a2[:nstored])
                extra = tuple(a[nstored:])
                new_full = tuple(a2[:nstored]) + extra
                tr, _ = model.importance(key, C["a"].set(vals[0]) | C["b"].set(vals[1]), a)
                r1 = clo.edit(key, tr, Regenerate(S.at["b"]), Diff.no_change(extra))
                r2 = model.edit(key, tr, Regenerate(S.at["b"]), Diff.unknown_change(tuple(a2[:nstored])) + Diff.no_change(extra))
                sc, rv = model.assess(r1[0].get_choices(), new_full)
                return (view(r1[0]), r1[1], r1[0].get_score(), r1[0].get_args()), (view(r2[0]), r2[1], sc, new_full)

            return sim, edit, edit_move

        sim, edit, edit_move = mk()
        if nstored:
            obs.append(Ob(f"C32/closure-stored{nstored}/edit-moves-stored-args", edit_move, (gfi.KEY, full, (F(0.1), F(-0.4)), (F(0.5), F(0.7), F(1.1))),
                          assume=lambda k, a, v, a2: [a[2][()] > 0, a2[2][()] > 0],
                          note="closure with NEW stored arguments editing a trace made with other arguments (Regenerate of a site they do not feed): == underlying edit with the stored arguments tagged changed; new trace agrees with assess at stored+extra"))
        obs.append(Ob(f"C32/closure-stored{nstored}/simulate-assess-importance-project", sim, (gfi.KEY, full, (F(0.1), F(-0.4))), assume=pos,
                      note="gen_fn(*stored) behaves as gen_fn on stored+extra in simulate/assess/importance/project"))
        obs.append(Ob(f"C32/closure-stored{nstored}/edit", edit, (gfi.KEY, full, (F(0.1), F(-0.4)), (F(0.5), F(0.7), F(1.1))),
                      assume=lambda k, a, v, a2: [a[2][()] > 0, a2[2][()] > 0], note="edit(Update) through the closure == edit on the underlying function with stored args prepended"))

    # keyword arguments stored in the closure
    def kw(key, a, vals):
        clo = model(a[0], s=a[2])
        extra = (a[1],)
        t1, t2 = clo.simulate(key, extra), model.simulate(key, a)
        chm = C["a"].set(vals[0]) | C["b"].set(vals[1])
        as1, as2 = clo.assess(chm, extra), model.assess(chm, a)
        i1, i2 = clo.importance(key, C["a"].set(vals[0]), extra), model.importance(key, C["a"].set(vals[0]), a)
        v1 = (t1.get_score(), t1.get_retval(), t1.get_choices()["a"], t1.get_choices()["b"])
        v2 = (t2.get_score(), t2.get_retval(), t2.get_choices()["a"], t2.get_choices()["b"])
        return (v1, as1, i1[0].get_score(), i1[1]), (v2, as2, i2[0].get_score(), i2[1])

    obs.append(Ob("C32/closure-kwargs/simulate-assess-importance", kw, (gfi.KEY, full, (F(0.1), F(-0.4))), assume=pos, note="gen_fn(x, s=s) then extra positional y == gen_fn(x, y, s)"))

    def kw_edit(key, a, vals, y2):
        clo = model(a[0], s=a[2])
        tr = clo.simulate(key, (a[1],))
        r1 = clo.edit(key, tr, Update(C["a"].set(vals[0])), (Diff.unknown_change(y2),))
        tr_b = model.simulate(key, a)
        r2 = model.edit(key, tr_b, Update(C["a"].set(vals[0])), Diff.unknown_change((a[0], y2, a[2])))
        return (r1[0].get_score(), r1[1], r1[0].get_retval()), (r2[0].get_score(), r2[1], r2[0].get_retval())

    obs.append(Ob("C32/closure-kwargs/edit", kw_edit, (gfi.KEY, full, (F(0.1), F(-0.4)), F(0.6)), assume=lambda k, a, v, y2: [a[2][()] > 0], note="edit through a closure holding keyword arguments"))

    # handle_kwargs wrapper == positional call
    def hk(key, a, vals):
        g = model.handle_kwargs()
        t1 = g.simulate(key, ((a[0], a[1]), {"s": a[2]}))
        t2 = model.simulate(key, a)
        chm = C["a"].set(vals[0]) | C["b"].set(vals[1])
        return ((t1.get_score(), t1.get_retval()), g.assess(chm, ((a[0],), {"y": a[1], "s": a[2]}))), ((t2.get_score(), t2.get_retval()), model.assess(chm, a))

    obs.append(Ob("C32/handle_kwargs=positional", hk, (gfi.KEY, full, (F(0.1), F(-0.4))), assume=pos))

    # partial_apply
    for nstored in (1, 2):
        def pa(key, a, vals, nstored=nstored):
            g = model.partial_apply(*a[:nstored])
            extra = tuple(a[nstored:])
            t1, t2 = g.simulate(key, extra), model.simulate(key, a)
            chm = C["a"].set(vals[0]) | C["b"].set(vals[1])
            u1 = t1.update(key, C["b"].set(vals[1]))
            u2 = t2.update(key, C["b"].set(vals[1]))
            return ((t1.get_score(), t1.get_retval()), g.assess(chm, extra), u1[0].get_score(), u1[1]), ((t2.get_score(), t2.get_retval()), model.assess(chm, a), u2[0].get_score(), u2[1])

        obs.append(Ob(f"C32/partial_apply{nstored}", pa, (gfi.KEY, full, (F(0.1), F(-0.4))), assume=pos, note="partial_apply(stored) == underlying function on stored+extra (simulate, assess, update)"))

    # distribution closures / kwargs
    def dist(key, mu, sig, v):
        n = genjax.normal
        t1, t2 = n(mu).simulate(key, (sig,)), n.simulate(key, (mu, sig))
        a1, a2 = n(mu, sig).assess(C.v(v), ()), n.assess(C.v(v), (mu, sig))
        return ((t1.get_score(), t1.get_retval()), a1), ((t2.get_score(), t2.get_retval()), a2)

    obs.append(Ob("C32/distribution-closure", dist, (gfi.KEY, F(0.2), F(1.3), F(0.7)), assume=lambda k, m, s, v: [s[()] > 0]))
    return obs
