"""C37: DiscreteHMM posterior density and sampler are exact."""
import itertools

import jax
import jax.numpy as jnp
from genjax._src.generative_functions.distributions.custom.discrete_hmm import DiscreteHMM, DiscreteHMMConfiguration
from jax.scipy.special import logsumexp

from verif.engine import Ob

LEVEL = "model_checking"
BOUNDS = {
    "configurations": "quick: (N=3 states, adjacency 1/1, sigma .5/.4), (N=4, adjacency 1/1, sigma .5/.4 - has out-of-band entries), T = 2; thorough adds (N=4, adjacency 1/2), (N=3, sigma .3/1.5) (T = 3 is encoded but its folded trees are not built within 50 min on this sandbox: outside the claim)",
    "symbolic": "the whole observation sequence and the whole latent sequence (integers in [0, N)); the configuration is static, so its tables are constants of the jaxpr",
}
ASSUMPTIONS = [
    "oracle: brute-force enumeration, written in plain JAX, of all N^T latent sequences: log p(z,y) = log pi(z0) + sum log A[z_{t-1},z_t] + sum log B[z_t,y_t] with pi = softmax(T[init]), A = softmax rows of the transition tensor, B = softmax rows of the observation tensor; posterior = joint - logsumexp over all sequences",
    "finite-domain encoding: integer inputs select constants, so every value is an if-then-else tree with rational leaves (exp/log folded on leaves with float64 math.*); equality up to 1e-4 absolute (the two sides compute the same constants along different float paths)",
    "sampler: exact posterior sampling is decided through its sufficient condition: the Gumbel-max categorical draw for z_t has logits equal (after normalisation) to the exact conditional P(z_t | z_{t+1}, y_0..y_t) computed by brute force, the draws use pairwise distinct keys (independent under the PRNG contract), and the returned weight is the exact posterior log-density of the returned sequence",
]
OUTSIDE = ["N > 4, T > 3, and N = 4 with T = 3 (4^6 joint input values: not built within an hour)", "sigma = 0 configurations (infinite logits)"]

KEY = jax.random.key(0)


def cfg(N, kt, ko, st, so):
    """The configuration's fields are static but must be jax arrays for the constructor's type check; arithmetic on jax
    arrays is staged while tracing (int(config.linear_grid_dim / 2) then fails), so after construction the same values are
    stored as NumPy scalars: the configuration arithmetic runs at trace time, everything else is the real code path."""
    import numpy as np

    c = DiscreteHMMConfiguration(jnp.int32(N), jnp.int32(kt), jnp.int32(ko), jnp.float32(st), jnp.float32(so))
    for f, v in (("linear_grid_dim", np.int32(N)), ("adjacency_distance_trans", np.int32(kt)), ("adjacency_distance_obs", np.int32(ko)), ("sigma_trans", np.float32(st)), ("sigma_obs", np.float32(so))):
        object.__setattr__(c, f, v)
    return c


def tables(c):
    import numpy as np

    tt, ot = np.asarray(c.transition_tensor(), np.float64), np.asarray(c.observation_tensor(), np.float64)

    def lsm(m):
        m = m - m.max(axis=-1, keepdims=True)
        return m - np.log(np.exp(m).sum(axis=-1, keepdims=True))

    A, B = lsm(tt), lsm(ot)
    init = int(int(c.linear_grid_dim) / 2)
    return jnp.asarray(A[init], jnp.float32), jnp.asarray(A, jnp.float32), jnp.asarray(B, jnp.float32)


def log_joint(pi, A, B, z, y):
    T = len(y)
    out = pi[z[0]] + B[z[0], y[0]]
    for t in range(1, T):
        out = out + A[z[t - 1], z[t]] + B[z[t], y[t]]
    return out


def log_evidence(pi, A, B, y, N):
    T = len(y)
    terms = [log_joint(pi, A, B, list(zz), y) for zz in itertools.product(range(N), repeat=T)]
    return logsumexp(jnp.stack(terms))


def obligations(tier, seed):
    obs = []
    confs = [("N3", (3, 1, 1, 0.5, 0.4)), ("N4", (4, 1, 1, 0.5, 0.4))]
    Ts = (2,)
    if tier == "thorough":
        confs += [("N4k2", (4, 1, 2, 0.5, 0.4)), ("N3wide", (3, 1, 1, 0.3, 1.5))]
        Ts = (2,)
    for cn, cp in confs:
        N = cp[0]
        for T in Ts:
            if N == 4 and T == 3:
                continue  # 4^6 joint input values: the folded trees take > 1 h to build on this sandbox - stated outside the claim

            def dens(z, y, cp=cp, N=N):
                c = cfg(*cp)
                pi, A, B = tables(c)
                real = DiscreteHMM.estimate_logpdf(KEY, z, c, y)
                ev = DiscreteHMM.data_logpdf(c, y)
                le = log_evidence(pi, A, B, y, N)
                return (real, ev), (log_joint(pi, A, B, z, y) - le, le)

            ex_z = jnp.asarray([1, 0, 2][:T], jnp.int32)
            ex_y = jnp.asarray([0, 2, 1][:T], jnp.int32)
            obs.append(Ob(f"C37/density/{cn}/T={T}", dens, (ex_z, ex_y), ranges={0: (0, N - 1), 1: (0, N - 1)}, fold=True, tol=1e-4, mode="exact", timeout_s=120, selfcheck=True,
                          note="estimate_logpdf(z; y) == log p(z,y) - log sum_z' p(z',y) and data_logpdf(y) == log sum_z' p(z',y), for ALL latent and observation sequences of the configuration (brute-force oracle over N^T sequences)"))

            def samp(key, y, cp=cp, N=N):
                c = cfg(*cp)
                pi, A, B = tables(c)
                w, v = DiscreteHMM.random_weighted(key, c, y)
                le = log_evidence(pi, A, B, y, N)
                inr = jnp.all((v >= 0) & (v < N))
                Tn = len(y)
                # exact backward-sampling conditionals given the LATER sampled state: P(z_t = k | z_{t+1} = v_{t+1}, y_0..y_t)
                conds = []
                for t in range(Tn):
                    rowk = []
                    for k in range(N):
                        terms = []
                        for zz in itertools.product(range(N), repeat=t):
                            zs = list(zz) + [k]
                            lj = pi[zs[0]] + B[zs[0], y[0]]
                            for u in range(1, t + 1):
                                lj = lj + A[zs[u - 1], zs[u]] + B[zs[u], y[u]]
                            if t < Tn - 1:
                                lj = lj + A[k, v[t + 1]]
                            terms.append(lj)
                        rowk.append(logsumexp(jnp.stack(terms)))
                    rowk = jnp.stack(rowk)
                    conds.append(rowk - logsumexp(rowk))
                conds = jnp.stack(conds)
                return (w, inr, jnp.zeros_like(conds)), (log_joint(pi, A, B, [v[t] for t in range(Tn)], y) - le, jnp.array(True), conds)

            def custom(interp, sym_args, outs, out_shape, T=T, N=N):
                from verif import engine
                from verif import jaxsmt as J

                # outputs: lhs = (w, inr, placeholder[T,N]), rhs = (exact weight, True, exact backward conditionals[T,N])
                nl = len(outs) // 2
                lhs, rhs = list(outs[:nl]), list(outs[nl:])
                cats = interp.categoricals
                assert len(cats) == T, (len(cats), T)
                ops = interp.ops
                rows = J.obj((T, N))
                for i, (key_, logits, pc_) in enumerate(cats):  # site i samples z_{T-1-i}
                    m = logits[0]
                    for l_ in logits[1:]:
                        m = ops.max(m, l_, "f")
                    ssum = None
                    for l_ in logits:
                        e_ = ops.unary("exp", ops.sub(l_, m, "f"))
                        ssum = e_ if ssum is None else ops.add(ssum, e_, "f")
                    lse = ops.add(m, ops.unary("log", ssum), "f")
                    for k_, l_ in enumerate(logits):
                        rows[T - 1 - i, k_] = ops.sub(l_, lse, "f")
                lhs[2] = rows
                diffs, err = engine.build_diffs(Ob("x", None, (), tol=1e-4), interp, out_shape, lhs + rhs)
                assert err is None, err
                ds = [d for d in interp.draws if d.kind in ("gumbel", "uniform", "bits")]
                assert len(ds) >= T, [d.kind for d in interp.draws]
                for i in range(len(ds)):
                    for j in range(i + 1, len(ds)):
                        diffs.append((f"draw keys {i},{j} coincide", ds[i].key == ds[j].key))
                return diffs

            def replay(args, samp=samp, cp=cp, N=N):
                """real code with jit disabled (scan runs as a Python loop): record the logits handed to jax.random.categorical and
                compare their normalisation with the brute-force backward conditionals given the sequence actually sampled"""
                import numpy as np

                key, y = args
                rec, orig = [], jax.random.categorical

                def cat(k, logits, *a, **kw):
                    rec.append(np.asarray(logits, np.float64))
                    return orig(k, logits, *a, **kw)

                jax.random.categorical = cat
                try:
                    with jax.disable_jit():
                        (w, inr, _), (wexp, _, conds) = samp(key, y)
                finally:
                    jax.random.categorical = orig
                conds = np.asarray(conds, np.float64)
                T_ = conds.shape[0]
                if len(rec) != T_:
                    return True, f"{len(rec)} categorical draws for {T_} time steps"
                worst = 0.0
                for i, lg in enumerate(rec):
                    lsm = lg - (np.log(np.sum(np.exp(lg - lg.max()))) + lg.max())
                    worst = max(worst, float(np.max(np.abs(lsm - conds[T_ - 1 - i]))))
                bad = worst > 1e-3 or abs(float(w) - float(wexp)) > 1e-3 or not bool(inr)
                return bad, f"y={np.asarray(y).tolist()}: max |log softmax(sampler logits) - exact backward conditional| = {worst:.4f}; weight {float(w):.5f} vs exact {float(wexp):.5f}"

            obs.append(Ob(f"C37/sampler-weight/{cn}/T={T}", samp, (KEY, ex_y), ranges={1: (0, N - 1)}, fold=True, tol=1e-4, custom=custom, replay=replay, timeout_s=120, selfcheck=False,
                          note="random_weighted: the returned weight is the exact posterior log-density of the returned sequence (in range); the logits of the categorical draw for z_t are the exact backward conditional P(z_t | z_{t+1} = the later sampled state, y_0..y_t) up to normalisation; one draw per time step with pairwise distinct keys - for all observation sequences and all draws"))
    return obs
