"""C16: masked iteration steps with a false mask are inert."""
from verif import gfi, programs as PG

LEVEL = "model_checking"
BOUNDS = {"step kernels": "x -> x + 0.5 z + 1 with z ~ normal(x,1) (non-identity, value depends on the choice); x -> 2x+1 with an unused flip", "length": "3", "mask": "symbolic boolean vector (all 8 patterns in one query)"}
ASSUMPTIONS = ["reference loop: score sums the step scores where mask is True; masked_iterate_final leaves the value unchanged on a False step (as documented); masked_iterate's values are compared only through the score/presence (the property does not specify them)"]
OUTSIDE = ["lengths > 3"]


def obligations(tier, seed):
    dc = PG.derived_catalogue()
    obs = []
    for nm in ["masked_iterate_final(step)", "masked_iterate_final(stepdet)"]:
        obs += gfi.family("C16", nm, dc[nm](), tier, ops=("assess", "simulate", "importance", "update"))
    P = dc["masked_iterate(step)"]()
    # masked_iterate: the property fixes the score and the behaviour of True steps only
    import jax.numpy as jnp
    from verif.engine import Ob

    def f(args, vals):
        sc, rv = P.gf.assess(P.chm(vals), args)
        r = P.ref(args, vals)
        allt = jnp.all(args[1])
        return (sc, jnp.where(allt, rv, 0.0)), (r.score, jnp.where(allt, r.retval, 0.0))

    obs.append(Ob("C16/assess-score=ref/masked_iterate(step)", f, (P.args, P.example_vals()), note="score == sum of unmasked step scores; with an all-True mask the values equal iterate's"))
    return obs
