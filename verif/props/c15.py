"""C15: dimap, map and contramap only transform arguments and return values."""
import jax
import jax.numpy as jnp
from genjax import Diff, Update

from verif import gfi, programs as PG
from verif.engine import Ob

LEVEL = "model_checking"
BOUNDS = {"inner programs": "inner1, inner2, innerS, scan(walk)", "pre/post": "6 pure JAX maps (affine, product, constant-producing, argument-duplicating, nonlinear square, select)",
          "edits": "update(S) with every argument tagged UnknownChange / NoChange, one argument changed at a time"}
ASSUMPTIONS = ["oracle: the inner program's own GFI on pre(args) and Python-level post(args, pre(args), retval)"]
OUTSIDE = ["pre/post with control flow (covered for the incremental interpreter by C09)"]

PRE = {
    "sum": (lambda x, y: (x + y,), 2),
    "scale-const": (lambda x: (x * 2.0, jnp.float32(0.5)), 1),
    "dup": (lambda x: (x, x * x + 1.0), 1),
    "swap": (lambda x, y: (y, x), 2),
}
POST = {
    "affine": lambda a, xa, r: r * 2.0 + a[0],
    "useargs": lambda a, xa, r: r * xa[0] + a[-1],
    "const": lambda a, xa, r: jnp.float32(3.0),
    "select": lambda a, xa, r: jnp.where(a[0] > 0, r, -r),
}


def _f(x):
    return jnp.asarray(x, jnp.float32)


def progs(tier):
    out = {}
    out["dimap[sum,affine](inner1)"] = lambda: PG.Dimap(PG.inner1(), PRE["sum"][0], POST["affine"], (_f(0.4), _f(1.2)))
    out["dimap[scale-const,useargs](innerS)"] = lambda: PG.Dimap(PG.inner_sigma(), PRE["scale-const"][0], POST["useargs"], (_f(0.4),))
    out["dimap[dup,select](innerS)"] = lambda: PG.Dimap(PG.inner_sigma(), PRE["dup"][0], POST["select"], (_f(0.4),))
    out["dimap[swap,const](innerS)"] = lambda: PG.Dimap(PG.inner_sigma(), PRE["swap"][0], POST["const"], (_f(1.3), _f(0.4)), assume=lambda *sa: [sa[0][()] > 0])
    out["map[sq](inner2)"] = lambda: PG.MapP(PG.inner2(), lambda r: r * r + 1.0)
    out["contramap[scale-const](innerS)"] = lambda: PG.Contramap(PG.inner_sigma(), PRE["scale-const"][0], (_f(0.4),))
    if tier == "thorough":
        out["dimap[sum,useargs](inner2)"] = lambda: PG.Dimap(PG.inner2(), PRE["sum"][0], POST["useargs"], (_f(0.4), _f(1.2)))
        out["map[sum](scan(walk))"] = lambda: PG.MapP(PG.Scan(PG.k_normal_walk(), 2), lambda r: r[0] + r[1].sum())
    return out


def obligations(tier, seed):
    obs = []
    for nm, th in progs(tier).items():
        P = th()
        obs += gfi.family("C15", nm, P, tier)
        K = P.meta["inner"]
        # retdiff: a NoChange tag must carry the previous retval; the primal is post(pre(new args))
        A = gfi.base_assume(P, in_range=False)
        nargs = len(P.args)
        for tagging in [tuple(True for _ in range(nargs))] + [tuple(i == j for i in range(nargs)) for j in range(nargs)] + [tuple(False for _ in range(nargs))]:
            def f(key, args, vals, args2, vals2, P=P, tagging=tagging):
                tr, _ = P.gf.importance(key, P.chm(vals), args)
                new_args = tuple(a2 if t else a for a, a2, t in zip(args, args2, tagging))
                ad = tuple(Diff.unknown_change(a2) if t else Diff.no_change(a) for a, a2, t in zip(args, args2, tagging))
                tr2, w, rd, bwd = Update(P.chm(vals2, subset=(0,))).edit(key, tr, ad)
                r_new = P.ref(new_args, [vals2[0]] + list(vals[1:]))
                lhs = [tr2.get_retval(), Diff.tree_primal(rd)]
                rhs = [r_new.retval, r_new.retval]
                if Diff.static_check_no_change(rd):
                    lhs.append(Diff.tree_primal(rd))
                    rhs.append(tr.get_retval())
                return lhs, rhs

            args2 = jax.tree_util.tree_map(lambda x: x + 0.25, P.args)
            obs.append(Ob(f"C15/retdiff{''.join('U' if t else 'N' for t in tagging)}/{nm}", f, (gfi.KEY, P.args, P.example_vals(), args2, gfi.perturb_vals(P)),
                          assume=lambda k, a, v, a2, v2, A=A: A(a, v) + A(a2, v2), note="update of the first site under the listed argument tagging (U = changed & UnknownChange, N = NoChange): retval and retdiff primal == recomputed post(pre(new args)); a NoChange retdiff equals the previous retval"))
    return obs
