"""C18: selections form a Boolean algebra over static addresses (engine E2: source -> z3 recursive functions)."""
import itertools
import json
import random
import time

import z3

from verif import pysel2smt as P
from verif.engine import Result, write_replay

LEVEL = "model_checking"
BOUNDS = {"selection terms": "ALL terms over all/none/leaf/complement/static(addr|...)/and/or of depth <= D (quick D=2, thorough D=3), symbolic (the solver ranges over the term structure)",
          "addresses": "all addresses of length 0..3 over an unbounded alphabet (components are unconstrained non-negative integers); at[...] builder paths of length 0..3 with the ... wildcard in any position"}
ASSUMPTIONS = ["the seven Selection value classes and Selection.__call__/__getitem__/extend are translated from their current source by verif/pysel2smt.py (AST subset; anything else is inconclusive); translator validated on every run against the real classes on 300 random ground terms and addresses",
               "ChmSel (selection of a choice map's addresses) is not part of this algebra check (it needs a choice map; see C17/C33)"]
OUTSIDE = ["terms deeper than D", "addresses longer than 3"]


def model():
    from genjax._src.core.generative import choice_map as cm

    return P.get_model(cm), cm


class Law:
    def __init__(self, name, note, build, D, timeout_s=120):
        self.name, self.note, self.build, self.D, self.timeout_s = name, note, build, D, timeout_s

    def run(self, pid, known):
        t0 = time.time()
        res = Result(name=self.name, verdict="error", mode="E2")
        try:
            M, cm = model()
            v = validate(M, cm)
            if v:
                res.detail = "translator validation failed: " + v
                return res
            res.selfcheck = "ok"
            tag_cons = []
            s, t = sym_term(M, "s", self.D, tag_cons), sym_term(M, "t", self.D, tag_cons)
            comps = [z3.Int(f"c{i}") for i in range(3)]
            wild = [z3.Int(f"w{i}") for i in range(3)]
            queries = self.build(M, s, t, comps, wild)
        except P.CannotEncode as e:
            res.verdict, res.detail = "unknown", f"cannot encode: {e}"
            return res
        res.functions = sorted(set("genjax/_src/core/generative/choice_map.py:" + f for f in M.encoded))
        res.nontrivial = 1
        sol = z3.Solver()
        sol.set("timeout", int(self.timeout_s * 1000))
        for c_ in tag_cons:
            sol.add(c_)
        for c in comps:
            sol.add(c >= 0)
        for w in wild:
            sol.add(w >= -1)
        verdict = "unsat"
        def check_split(label, neg):
            """one query; if the solver gives up, split on the top constructor of s, then also of t (case analysis
            over the datatype - every case is still a solver query over all terms of that shape)"""
            def one(extra, lab, tmo):
                sol.push()
                sol.set("timeout", int(tmo * 1000))
                for e_ in extra:
                    sol.add(e_)
                sol.add(neg)
                tq = time.time()
                r_ = str(sol.check())
                m_ = sol.model() if r_ == "sat" else None
                dt = time.time() - tq
                res.solver_s += dt
                res.queries.append({"q": lab, "verdict": r_, "ms": round(dt * 1e3, 1)})
                sol.pop()
                return r_, m_

            r_, m_ = one([], label, min(20, self.timeout_s))
            if r_ in ("sat", "unsat"):
                return r_, m_
            for c1 in P.CLASSES:
                r1, m1 = one([z3.Int('s_tag') == P.CLASSES.index(c1)], f"{label} [s={c1}]", 30)
                if r1 == "sat":
                    return r1, m1
                if r1 == "unsat":
                    continue
                for c2 in P.CLASSES:
                    r2, m2 = one([z3.Int('s_tag') == P.CLASSES.index(c1), z3.Int('t_tag') == P.CLASSES.index(c2)], f"{label} [s={c1}, t={c2}]", self.timeout_s)
                    if r2 == "sat":
                        return r2, m2
                    if r2 != "unsat":
                        return "unknown", None
            return "unsat", None

        for label, neg, decode in queries:
            r, m = check_split(label, neg)
            sol.push()
            if r == "sat":
                ok, detail, cex = decode(m, M, cm)
                res.cex, res.detail = cex, f"{label}: {detail}"
                if ok:  # reproduced on the real classes
                    res.reproduced = True
                    verdict = "sat"
                else:
                    verdict = "unknown"
                    res.detail = "model did not reproduce on the real classes (translator gap): " + res.detail
                sol.pop()
                break
            if r != "unsat":
                verdict = "unknown"
                res.detail = f"{label}: solver {r} {sol.reason_unknown()}"
                sol.pop()
                break
            sol.pop()
        res.verdict = verdict
        res.leaves = len(queries)
        res.ms = (time.time() - t0) * 1e3
        return res

    def replay(self, d):
        from genjax._src.core.generative import choice_map as cm

        print(json.dumps(d["inputs"]))
        ok = eval_cex(cm, d["inputs"])
        print("REPRODUCED" if ok else "not reproduced")
        return 1 if ok else 0


def sym_term(M, name, depth, cons):
    """ALL selection terms of depth <= `depth` as one z3 term: every node has a symbolic constructor tag (and a symbolic
    address component for static nodes); the solver ranges over the tags, i.e. over the term structure."""
    S = M.Sel
    tag = z3.Int(f"{name}_tag")
    if depth == 0:
        cons.append(z3.And(tag >= 0, tag <= 2))
        return z3.If(tag == 0, S.AllSel, z3.If(tag == 1, S.NoneSel, S.LeafSel))
    cons.append(z3.And(tag >= 0, tag <= 6))
    l, r = sym_term(M, name + "l", depth - 1, cons), sym_term(M, name + "r", depth - 1, cons)
    a = z3.Int(f"{name}_addr")
    cons.append(a >= -1)
    return z3.If(tag == 0, S.AllSel, z3.If(tag == 1, S.NoneSel, z3.If(tag == 2, S.LeafSel, z3.If(tag == 3, S.ComplementSel(l), z3.If(tag == 4, S.StaticSel(l, a), z3.If(tag == 5, S.AndSel(l, r), S.OrSel(l, r)))))))


# ---- ground evaluation on the real classes


def rnd_term(M, rng, depth):
    S = M.Sel
    if depth == 0 or rng.random() < 0.25:
        return rng.choice([S.AllSel, S.NoneSel, S.LeafSel])
    k = rng.choice(["c", "s", "a", "o"])
    if k == "c":
        return S.ComplementSel(rnd_term(M, rng, depth - 1))
    if k == "s":
        return S.StaticSel(rnd_term(M, rng, depth - 1), z3.IntVal(rng.choice([-1, 0, 1, 2])))
    f = S.AndSel if k == "a" else S.OrSel
    return f(rnd_term(M, rng, depth - 1), rnd_term(M, rng, depth - 1))


_validated = {}


def validate(M, cm):
    """translator validation: z3 evaluation of member/sub/smart constructors == the real classes on random ground terms"""
    if "v" in _validated:
        return _validated["v"]
    rng = random.Random(7)
    sol = z3.Solver()
    sol.check()
    bad = ""
    for i in range(300):
        a, b = rnd_term(M, rng, 3), rnd_term(M, rng, 2)
        addr = [rng.choice([0, 1, 2, 3]) for _ in range(rng.choice([0, 1, 2, 3]))]
        ra, rb = P.to_real(cm, a), P.to_real(cm, b)
        real_addr = tuple(P.comp_to_real(x) for x in addr)
        cases = [("member", M.member(a, [z3.IntVal(x) for x in addr]), ra[real_addr] if real_addr else ra.check()),
                 ("or", M.member(M.build("OrSel", a, b), [z3.IntVal(x) for x in addr]), (ra | rb)[real_addr] if real_addr else (ra | rb).check()),
                 ("and", M.member(M.build("AndSel", a, b), [z3.IntVal(x) for x in addr]), (ra & rb)[real_addr] if real_addr else (ra & rb).check()),
                 ("not", M.member(M.build("ComplementSel", a), [z3.IntVal(x) for x in addr]), (~ra)[real_addr] if real_addr else (~ra).check())]
        for nm, term, real in cases:
            got = z3.simplify(term)
            if not (z3.is_true(got) or z3.is_false(got)):
                s2 = z3.Solver()
                s2.add(term)
                got_b = str(s2.check()) == "sat"
            else:
                got_b = z3.is_true(got)
            if got_b != bool(real):
                bad = f"{nm}: term {a} / {b} addr {addr}: encoding {got_b} real {real}"
                break
        if bad:
            break
    _validated["v"] = bad
    return bad


def real_addr(m, comps, n):
    return tuple(P.comp_to_real(m.eval(c, model_completion=True).as_long()) for c in comps[:n])


def eval_cex(cm, cex):
    """re-evaluate a recorded counterexample on the real classes"""
    M = P.get_model(cm)
    ctx = {"S": M.Sel}
    s = eval(cex["s"], {**{c: getattr(M.Sel, c) for c in P.CLASSES}})  # noqa: S307 - our own serialisation
    t = eval(cex["t"], {**{c: getattr(M.Sel, c) for c in P.CLASSES}})  # noqa: S307
    del ctx
    rs, rt = P.to_real(cm, s), P.to_real(cm, t)
    addr = tuple(P.comp_to_real(x) for x in cex["addr"])
    return _law_real(cex["law"], cm, rs, rt, addr, cex.get("path"))


def _mem(sel, addr):
    return sel[addr] if addr else sel.check()


def _law_real(law, cm, rs, rt, addr, path=None):
    """True iff the law is VIOLATED on the real classes"""
    if law == "or":
        return _mem(rs | rt, addr) != (_mem(rs, addr) or _mem(rt, addr))
    if law == "and":
        return _mem(rs & rt, addr) != (_mem(rs, addr) and _mem(rt, addr))
    if law == "not":
        return _mem(~rs, addr) != (not _mem(rs, addr))
    if law == "sub":
        k = len(addr) // 2
        a, b = addr[:k], addr[k:]
        return _mem(rs(a) if a else rs, b) != _mem(rs, addr)
    if law == "build-or":
        return _mem(cm.OrSel.build(rs, rt), addr) != _mem(cm.OrSel(rs, rt), addr)
    if law == "build-and":
        return _mem(cm.AndSel.build(rs, rt), addr) != _mem(cm.AndSel(rs, rt), addr)
    if law == "build-not":
        return _mem(cm.ComplementSel.build(rs), addr) != _mem(cm.ComplementSel(rs), addr)
    if law == "build-static":
        comp = P.comp_to_real(path[0])
        return _mem(cm.StaticSel.build(rs, comp), addr) != _mem(cm.StaticSel(rs, comp), addr)
    if law == "at":
        p = tuple(P.comp_to_real(x) for x in path)
        sel = cm.Selection.at[p]
        exp = len(addr) >= len(p) and all(pc is ... or pc == ac for pc, ac in zip(p, addr))
        if len(p) == 0:
            exp = len(addr) == 0
        return _mem(sel, addr) != exp
    raise ValueError(law)


def decoder(law, n, comps, s, t, path_vars=None):
    def decode(m, M, cm):
        sv, tv = m.eval(s, model_completion=True), m.eval(t, model_completion=True)
        addr = [m.eval(c, model_completion=True).as_long() for c in comps[:n]]
        path = [m.eval(w, model_completion=True).as_long() for w in (path_vars or [])]
        cex = {"law": law, "s": str(sv).replace("\n", " "), "t": str(tv).replace("\n", " "), "addr": addr, "path": path}
        try:
            bad = _law_real(law, cm, P.to_real(cm, sv), P.to_real(cm, tv), tuple(P.comp_to_real(x) for x in addr), path)
        except Exception as e:  # noqa: BLE001
            return True, f"real classes raised {type(e).__name__}: {e}", cex
        return bad, f"s={cex['s']} t={cex['t']} addr={addr} path={path}", cex

    return decode


def obligations(tier, seed):
    D = 2 if tier == "quick" else 3
    laws = []

    def per_len(law, mk):
        def build(M, s, t, comps, wild):
            qs = []
            for n in range(4):
                a = comps[:n]
                lhs, rhs = mk(M, s, t, a)
                qs.append((f"{law} |addr|={n}", lhs != rhs, decoder(law, n, comps, s, t)))
            return qs

        return build

    laws.append(Law("C18/or", "(s|t)[a] == s[a] or t[a]", per_len("or", lambda M, s, t, a: (M.member(M.build("OrSel", s, t), a), z3.Or(M.member(s, a), M.member(t, a)))), D))
    laws.append(Law("C18/and", "(s&t)[a] == s[a] and t[a]", per_len("and", lambda M, s, t, a: (M.member(M.build("AndSel", s, t), a), z3.And(M.member(s, a), M.member(t, a)))), D))
    laws.append(Law("C18/not", "(~s)[a] == not s[a]", per_len("not", lambda M, s, t, a: (M.member(M.build("ComplementSel", s), a), z3.Not(M.member(s, a)))), D))
    laws.append(Law("C18/smart-or", "OrSel.build(s,t) selects the same addresses as OrSel(s,t)", per_len("build-or", lambda M, s, t, a: (M.member(M.build("OrSel", s, t), a), M.member(M.Sel.OrSel(s, t), a))), D))
    laws.append(Law("C18/smart-and", "AndSel.build(s,t) selects the same addresses as AndSel(s,t)", per_len("build-and", lambda M, s, t, a: (M.member(M.build("AndSel", s, t), a), M.member(M.Sel.AndSel(s, t), a))), D))
    laws.append(Law("C18/smart-not", "ComplementSel.build(s) selects the same addresses as ComplementSel(s)", per_len("build-not", lambda M, s, t, a: (M.member(M.build("ComplementSel", s), a), M.member(M.Sel.ComplementSel(s), a))), D))

    def smart_static(M, s, t, comps, wild):
        qs = []
        for n in range(4):
            a = comps[:n]
            qs.append((f"build-static |addr|={n}", M.member(M.build("StaticSel", s, wild[0]), a) != M.member(M.Sel.StaticSel(s, wild[0]), a), decoder("build-static", n, comps, s, t, [wild[0]])))
        return qs

    laws.append(Law("C18/smart-static", "StaticSel.build(s, c) selects the same addresses as StaticSel(s, c) (c a string or ...)", smart_static, D))

    def sub_law(M, s, t, comps, wild):
        # S(a)[b] == S[a + b]: the loop of __call__ composes
        qs = []
        for n in (2, 3):
            k = n // 2
            qs.append((f"sub |a|={k} |b|={n - k}", M.member(M.call(s, comps[:k]), comps[k:n]) != M.member(s, comps[:n]), decoder("sub", n, comps, s, t)))
        return qs

    laws.append(Law("C18/subselection", "S(a)[b] == S[a, b]", sub_law, D))

    def at_law(M, s, t, comps, wild):
        # Selection.at[p] (p may contain ...) selects exactly the addresses that extend a match of p
        qs = []
        for lp, n in itertools.product(range(4), range(4)):
            p, a = wild[:lp], comps[:n]
            sel = M.extend(M.Sel.AllSel, p) if lp else M.Sel.LeafSel
            if lp == 0:
                exp = z3.BoolVal(n == 0)
            elif n < lp:
                exp = z3.BoolVal(False)
            else:
                exp = z3.And(*[z3.Or(p[i] == P.ELLIPSIS, p[i] == a[i]) for i in range(lp)])
            qs.append((f"at |path|={lp} |addr|={n}", M.member(sel, a) != exp, decoder("at", n, comps, s, t, wild[:lp])))
        return qs

    laws.append(Law("C18/at-builder", "Selection.at[p][a] iff a extends p componentwise (... matches any component); at[()] selects only the empty address", at_law, D))
    return laws
