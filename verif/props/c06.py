"""C06: backward requests undo edits exactly."""
import jax
import jax.numpy as jnp
from genjax import Diff, EmptyRequest, IndexRequest, Regenerate, StaticRequest, Update
from genjax import Selection as S

from verif import gfi, programs as PG
from verif.engine import Ob
from verif.props.c05 import view

LEVEL = "model_checking"
BOUNDS = {"programs": "catalogue", "requests": "Update(S) with/without argument change; Regenerate(all|none|site) where accepted; IndexRequest(i symbolic, Update|Regenerate) on vmap/scan; StaticRequest({addr: Update|Regenerate|IndexRequest}) on static programs; DiffAnnotate(identity) and EmptyRequest wrappers",
          "chain": "forward edit then the returned backward request (one round trip); also starting from a trace that went through a pytree flatten/unflatten (what a jax.jit boundary does)", "array_length": "<=3"}
ASSUMPTIONS = ["the backward edit is applied with the original argument values tagged like the forward change", "index positions 0<=i<n"]
OUTSIDE = ["chains longer than one round trip", "request kinds a combinator rejects with NotImplementedError/assert (not accepted requests)"]


def tview(P, tr):
    return {"score": tr.get_score(), "retval": PG.norm_ret(P, tr.get_retval()), "choices": view(P, tr.get_choices())}


def round_trip(P, key, tr0, req, ad_fwd, ad_bwd):
    tr1, w, rd, bwd = req.edit(key, tr0, ad_fwd)
    tr2, w2, rd2, _ = bwd.edit(jax.random.fold_in(key, 7), tr1, ad_bwd)
    return (tview(P, tr2), w2), (tview(P, tr0), -w)


def obligations(tier, seed):
    cat, names = gfi.prog_names(tier)
    obs = []
    for nm in names:
        P = cat[nm]()
        A = gfi.base_assume(P, in_range=False)
        n = len(P.sites)
        ex, ex2 = P.example_vals(), gfi.perturb_vals(P)
        args2 = jax.tree_util.tree_map(lambda x: x + 0.25 if jnp.issubdtype(x.dtype, jnp.floating) else x, P.args)

        def add(name, mkreq, chg=False, extra=(), extra_assume=lambda *e: [], note="", roundtrip=False):
            def f(key, args, vals, vals2, args2, *e, P=P):
                tr0, _ = P.gf.importance(key, P.chm(vals), args)
                if roundtrip:  # what crossing a jax.jit boundary does to a trace: flatten and rebuild the pytree (dict keys come back sorted)
                    leaves, treedef = jax.tree_util.tree_flatten(tr0)
                    tr0 = jax.tree_util.tree_unflatten(treedef, leaves)
                req = mkreq(vals2, *e)
                if chg:
                    return round_trip(P, key, tr0, req, Diff.unknown_change(args2), Diff.unknown_change(args))
                return round_trip(P, key, tr0, req, Diff.no_change(args), Diff.no_change(args))

            obs.append(Ob(f"C06/{name}/{nm}", f, (gfi.KEY, P.args, ex, ex2, args2) + tuple(extra),
                          assume=lambda k, a, v, v2, a2, *e, A=A: A(a, v) + A(a2, v2) + extra_assume(*e), note=note))

        if "update" in P.supports:
            subs = gfi.subsets(n, tier) if tier == "thorough" else list(dict.fromkeys([(), tuple(range(n))] + [(i,) for i in range(min(n, 3))]))
            for sub in subs:
                for chg in (False, True):
                    add(f"update{list(sub)}{'+args' if chg else ''}", lambda v2, sub=sub, P=P: Update(P.chm(v2, subset=sub)), chg,
                        note="forward Update, then the returned backward request restores choices/score/retval with weight -w")
            for chg in (False, True):
                add(f"update[all]{'+args' if chg else ''}@pytree-roundtrip", lambda v2, P=P: Update(P.chm(v2)), chg, roundtrip=True,
                    note="the trace first crosses a jit-like boundary (pytree flatten/unflatten), then forward Update and backward request as above")
            add("diffannotate(update-all)", lambda v2, P=P: Update(P.chm(v2)).dimap(pre=lambda a: a, post=lambda r: r))
            add("empty+args", lambda v2: EmptyRequest(), True)
        if "regenerate" in P.supports:
            sels = [("all", S.all()), ("none", S.none())] + [(str(s.static_addr), S.at[s.static_addr]) for s in P.sites[:3] if s.static_addr]
            for sn, sel in sels:
                add(f"regenerate[{sn}]", lambda v2, sel=sel: Regenerate(sel), note="forward Regenerate; backward is an Update of the old values")
        if "index" in P.supports and P.kind in ("vmap", "scan"):
            K = P.meta["inner"]
            nlen = P.meta["n"]
            kv = K.example_vals()
            for si in range(len(K.sites)):
                nv = (kv[si] + 0.5) if kv[si].dtype == jnp.float32 else kv[si]
                add(f"index-update[{K.sites[si].static_addr}]",
                    lambda v2, i, newv, K=K, si=si: IndexRequest(i, Update(K.chm([newv if j == si else None for j in range(len(K.sites))], subset=(si,)))),
                    extra=(jnp.int32(1), nv), extra_assume=lambda i, nv, nlen=nlen: [i[()] >= 0, i[()] < nlen],
                    note="IndexRequest(i, Update(site)) with symbolic position")
            if "regenerate" in K.supports:
                add("index-regenerate[all]", lambda v2, i: IndexRequest(i, Regenerate(S.all())), extra=(jnp.int32(1),),
                    extra_assume=lambda i, nlen=nlen: [i[()] >= 0, i[()] < nlen])
        if "static_request" in P.supports and P.kind == "static":
            subs_ = P.meta["subs"]
            off = 0
            for addr, Q, _ in subs_:
                m = len(Q.sites)
                idxs = tuple(range(off, off + m))
                if "update" in Q.supports:
                    add(f"static[{addr}:update]", lambda v2, addr=addr, Q=Q, idxs=idxs: StaticRequest({addr: Update(Q.chm([v2[j] for j in idxs]))}))
                if "regenerate" in Q.supports:
                    add(f"static[{addr}:regenerate]", lambda v2, addr=addr: StaticRequest({addr: Regenerate(S.all())}))
                if "index" in Q.supports and Q.kind in ("vmap", "scan"):
                    K = Q.meta["inner"]
                    kv = K.example_vals()
                    add(f"static[{addr}:index-update]",
                        lambda v2, i, newv, addr=addr, K=K: StaticRequest({addr: IndexRequest(i, Update(K.chm([newv] + [None] * (len(K.sites) - 1), subset=(0,))))}),
                        extra=(jnp.int32(1), kv[0] + 0.5), extra_assume=lambda i, nv, nlen=Q.meta["n"]: [i[()] >= 0, i[()] < nlen])
                off += m
    return obs
