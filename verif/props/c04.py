"""C04: simulate samples the program's distribution and is a function of the key."""
import jax
import jax.numpy as jnp
import genjax
import z3

from verif import gfi, jaxsmt as J, programs as PG
from verif.engine import Ob, build_diffs

LEVEL = "model_checking"
BOUNDS = {"programs": "catalogue programs (quick: 16; thorough: all) over normal / flip / categorical / uniform leaves, incl. dependent sites, vmap, repeat, scan, switch (all integer indices), or_else, mix, mask, dimap",
          "what is decided": "(a) dataflow: every choice in simulate's trace equals the leaf sampler applied to the REFERENCE parameters computed from the trace's own parent values, under one of the program's own keys; (b) key separation: all draw sites that can execute together use pairwise distinct keys; (c) determinism: two simulate calls with the same key and arguments agree; propose == simulate"}
ASSUMPTIONS = ["a solver cannot integrate over randomness: the distributional claim is reduced to (a)+(b)+(c), which imply it under the PRNG contract (distinct key-derivation paths give independent streams) and 'TFP's leaf samplers sample their distributions' (trusted)",
               "the leaf sampler oracle is the real GenJAX distribution's simulate on a fresh key, whose draw atoms are then re-keyed (substitution) to each candidate key occurring in the program's own draws"]
OUTSIDE = ["key separation inside a switch that is vmapped (all branches run with the element key and one is selected)", "statistical quality of the PRNG, empirical-frequency convergence itself", "continuous moment checks"]

KEY = gfi.KEY
QUICK = ["normal", "flip", "categorical", "inner2", "innerF", "vmap(inner1)", "vmap(innerS;0,None)", "repeat(inner1)", "scan(walk)", "scan(kern2)", "switch(inner1,inner2s)", "mask(inner1)",
         "or_else(inner1,inner2s)", "mix(inner1,inner2)", "composed", "static(scan)", "scan(kernN)", "static(vmap3;y)", "static(vmapdist3;y)"]
GJ = {"normal": genjax.normal, "flip": genjax.flip, "categorical3": genjax.categorical, "categorical2": genjax.categorical, "uniform": genjax.uniform}


def key_subterms(t, acc):
    if t.sort() == J.Key:
        acc[t.get_id()] = t
    for c in t.children():
        key_subterms(c, acc)
    return acc


def obligations(tier, seed):
    cat = PG.catalogue()
    names = [n for n in QUICK if n in cat] if tier == "quick" else list(cat)
    obs = []
    for nm in names:
        P = cat[nm]()
        A = gfi.base_assume(P, in_range=False)

        def f(key, args, kfree, P=P):
            tr = P.gf.simulate(key, args)
            vals = gfi.trace_vals(P, tr)
            with PG.record_leaves() as rec:
                P.ref(args, vals)
            lhs, rhs = [], []
            for j, (dist, params, v, g) in enumerate(rec):
                s = GJ[dist].simulate(jax.random.fold_in(kfree, j), tuple(params)).get_retval()
                z = jnp.zeros_like(v)
                lhs.append(jnp.where(g, v, z))
                rhs.append(jnp.where(g, s, z))
            return lhs, rhs

        # under jax.vmap a switch runs ALL branches with the element's key and selects afterwards: the branches' draws share a key
        # by construction and only one of them is used - key separation between them is not a requirement there
        batched_switch = any(t in nm for t in ("vmap(switch", "vmap(or_else", "vmap(mix"))

        def custom(interp, sym_args, outs, out_shape, batched_switch=batched_switch):
            n = len(outs) // 2
            lhs, rhs = outs[:n], outs[n:]
            kroot = sym_args[2][()]
            real = [d for d in interp.draws if str(kroot) not in str(d.key)]
            cands = {}
            for d in real:
                key_subterms(d.key, cands)
            cands = list(cands.values())
            diffs = []
            interp.symbolic_leaves = n
            for j, (a, b) in enumerate(zip(lhs, rhs)):
                kf = J.Key.fold_in(kroot, z3.IntVal(j))
                for idx in __import__("numpy").ndindex(*a.shape):
                    x, y = J.lower(a[idx]), J.lower(b[idx])
                    if not J.is_sym(y) and not J.is_sym(x):
                        if x != y:
                            diffs.append((f"leaf {j}{list(idx)} constant mismatch", z3.BoolVal(True)))
                        continue
                    kind = "b" if (J.is_sym(x) and x.sort() == z3.BoolSort()) or isinstance(x, bool) else ("i" if (J.is_sym(x) and x.sort() == z3.IntSort()) or (isinstance(x, int) and not isinstance(x, bool)) else "f")
                    xt, yt = J.zterm(x, kind), J.zterm(y, kind)
                    alts = [xt == z3.substitute(yt, (kf, c)) for c in cands]
                    diffs.append((f"leaf {j}{list(idx)}: value is not the leaf sampler on the reference parameters under any of the program's keys", z3.Not(z3.Or(*alts)) if alts else z3.BoolVal(True)))
            # (b) key separation among the program's own draws
            for i in range(len(real) if not batched_switch else 0):
                for k in range(i + 1, len(real)):
                    pcs = [J.zbool(c) for c in real[i].pc + real[k].pc]
                    diffs.append((f"draw sites {i} and {k} ({real[i].kind}/{real[k].kind}) can execute together with the same key", z3.And(real[i].key == real[k].key, *pcs)))
            return diffs

        def replay(args, P=P):
            """concrete confirmation on the real code: (1) key collision - run simulate with jit disabled (scan / cond execute as
            Python) and record the key data reaching every jax.random sampler call; two calls with the same key data reproduce the
            collision; (2) otherwise compare the trace with assess on its own choices."""
            import numpy as np
            import jax.random as jr

            key, a, _ = args
            seen, depth, origs = [], [0], {}
            names = [n for n in ("normal", "uniform", "gumbel", "bits", "bernoulli", "categorical", "gamma", "beta", "poisson", "exponential", "randint", "truncated_normal") if hasattr(jr, n)]

            def wrap(n):
                orig = origs[n] = getattr(jr, n)

                def w(*aa, **kw):
                    k = aa[0] if aa else kw.get("key")
                    if depth[0] == 0:
                        try:
                            kd = jr.key_data(k)
                            kd = getattr(kd, "val", kd)
                            for row in np.asarray(kd).reshape(-1, np.asarray(kd).shape[-1]):  # batched keys (vmap): one entry per element
                                seen.append(tuple(row.tolist()))
                        except Exception:  # noqa: BLE001
                            pass
                    depth[0] += 1
                    try:
                        return orig(*aa, **kw)
                    finally:
                        depth[0] -= 1

                setattr(jr, n, w)

            for n in names:
                wrap(n)
            try:
                with jax.disable_jit():
                    tr = P.gf.simulate(key, a)
            finally:
                for n, o in origs.items():
                    setattr(jr, n, o)
            dups = len(seen) - len(set(seen))
            if dups:
                return True, f"{dups} of {len(seen)} sampler calls reuse a PRNG key already consumed by another call (key data recorded with jit disabled)"
            sc, rv = P.gf.assess(tr.get_choices(), a)
            ok = bool(jnp.allclose(sc, tr.get_score(), atol=1e-4))
            return (not ok), f"no key reuse observed; trace score {tr.get_score()} vs assess {sc}"

        obs.append(Ob(f"C04/dataflow+keys/{nm}", f, (KEY, P.args, jax.random.key(7)), assume=lambda k, a, kf, A=A: A(a), custom=custom, replay=replay, selfcheck=False, timeout_s=60,
                      note="every choice == leaf sampler(reference parameters from the trace's own parents) under one of the program's keys; draw sites that can co-execute use pairwise distinct keys"))

        def det(key, args, P=P):
            t1, t2 = P.gf.simulate(key, args), P.gf.simulate(key, args)
            ch, sc, rv = P.gf.propose(key, args)
            v1 = gfi.full_view(P, t1)[0] + [g for g in gfi.chm_view(P, t1.get_choices())]
            v2 = gfi.full_view(P, t2)[0] + [g for g in gfi.chm_view(P, t2.get_choices())]
            vp = [sc, PG.norm_ret(P, rv)] + [g for g in gfi.chm_view(P, ch)]
            v1p = [t1.get_score(), PG.norm_ret(P, t1.get_retval())] + [g for g in gfi.chm_view(P, t1.get_choices())]
            return (v1, v1p), (v2, vp)

        obs.append(Ob(f"C04/deterministic/{nm}", det, (KEY, P.args), assume=lambda k, a, A=A: A(a), timeout_s=30,
                      note="two simulate calls with the same (key, args) return the same trace; propose == simulate's choices, score, retval"))
    return obs
