"""C24: distribution wrappers agree with their TFP densities."""
import jax
import jax.numpy as jnp
import genjax
from genjax import ChoiceMapBuilder as C
from genjax import Diff
from tensorflow_probability.substrates import jax as tfp

from verif import gfi
from verif.engine import Ob

tfd = tfp.distributions

LEVEL = "translation_validation"
BOUNDS = {"distributions": "44 of the 46 exported TFP wrappers (beta_quotient and skellam are outside the claim), one parameter template each in the valid domain (scalars, or length-2/3 vectors for the multivariate ones); parameters and the value are symbolic around the template shapes",
          "batch shapes": "scalar distributions also with parameters and value of batch shape (2,) (quick: 10 distributions, thorough: all scalar ones)", "operations": "assess, importance(full) weight+score, update(v->v') weight, update with a flag-masked constraint and changed parameters, chained updates (quick: 10 distributions) on the returned trace's own arguments, simulate score vs log_prob of the sampled value, keyword vs positional invocation, sample dtype"}
ASSUMPTIONS = ["both sides trace the same TFP log_prob code, so special functions (lgamma, bessel, cholesky, ...) are the same uninterpreted symbols on both sides; what is decided is GenJAX's wrapper (summing, kwargs path, implicit-logit wrapper, masks)",
               "TFP samplers that cannot be encoded (rejection loops) are uninterpreted functions of (key, parameters)"]
TOO_LARGE = {"beta_quotient", "skellam"}  # log_prob is a numerical quadrature: 328 000 jaxpr equations encoded in 270 s, z3 'unknown' after 60 s
OUTSIDE = ["beta_quotient (log_prob is a 328k-equation numerical quadrature; encoded but not decided by z3 within the budget - stated, not claimed)", "skellam (log_prob = 21 600 equations of Bessel-function recurrences: the abstraction gives a non-reproducing model and exact arithmetic is unknown after 60 s - stated, not claimed)", "that TFP samplers stay in the support (TFP is the trusted oracle)", "batch/sample shapes beyond the template"]

F = lambda *v: jnp.asarray(v[0] if len(v) == 1 else v, jnp.float32)  # noqa: E731
V = lambda *v: jnp.asarray(v, jnp.float32)  # noqa: E731
I = lambda v: jnp.asarray(v, jnp.int32)  # noqa: E731

# name -> (tfd constructor as used by the wrapper, positional params, keyword names for the same params, example value v, second value v2)
T = {
    "bernoulli": (lambda l: tfd.Bernoulli(logits=l), (F(0.3),), ("logits",), I(1), I(0)),
    "beta": (tfd.Beta, (F(2.0), F(3.0)), ("concentration1", "concentration0"), F(0.3), F(0.6)),
    "beta_binomial": (tfd.BetaBinomial, (F(5.0), F(2.0), F(3.0)), ("total_count", "concentration1", "concentration0"), F(2.0), F(4.0)),
    "beta_quotient": (tfd.BetaQuotient, (F(2.0), F(3.0), F(2.5), F(1.5)), ("concentration1_numerator", "concentration0_numerator", "concentration1_denominator", "concentration0_denominator"), F(0.7), F(1.4)),
    "binomial": (tfd.Binomial, (F(5.0), F(0.2)), ("total_count", "logits"), F(2.0), F(3.0)),
    "categorical": (lambda l: tfd.Categorical(logits=l), (V(0.1, -0.2, 0.4),), ("logits",), I(1), I(2)),
    "cauchy": (tfd.Cauchy, (F(0.1), F(1.2)), ("loc", "scale"), F(0.4), F(-1.0)),
    "chi": (tfd.Chi, (F(3.0),), ("df",), F(1.1), F(2.0)),
    "chi2": (tfd.Chi2, (F(3.0),), ("df",), F(1.1), F(2.0)),
    "dirichlet": (tfd.Dirichlet, (V(1.0, 2.0, 3.0),), ("concentration",), V(0.2, 0.3, 0.5), V(0.1, 0.6, 0.3)),
    "dirichlet_multinomial": (tfd.DirichletMultinomial, (F(4.0), V(1.0, 2.0, 3.0)), ("total_count", "concentration"), V(1.0, 1.0, 2.0), V(0.0, 2.0, 2.0)),
    "double_sided_maxwell": (tfd.DoublesidedMaxwell, (F(0.1), F(1.2)), ("loc", "scale"), F(0.8), F(-0.7)),
    "exp_gamma": (tfd.ExpGamma, (F(2.0), F(1.5)), ("concentration", "rate"), F(0.3), F(-0.2)),
    "exp_inverse_gamma": (tfd.ExpInverseGamma, (F(2.0), F(1.5)), ("concentration", "scale"), F(0.3), F(-0.2)),
    "exponential": (tfd.Exponential, (F(1.5),), ("rate",), F(0.7), F(1.2)),
    "flip": (lambda p: tfd.Bernoulli(probs=p, dtype=jnp.bool_), (F(0.3),), None, jnp.array(True), jnp.array(False)),
    "gamma": (tfd.Gamma, (F(2.0), F(1.5)), ("concentration", "rate"), F(0.7), F(1.2)),
    "geometric": (lambda l: tfd.Geometric(logits=l), (F(0.3),), ("logits",), F(2.0), F(0.0)),
    "gumbel": (tfd.Gumbel, (F(0.1), F(1.2)), ("loc", "scale"), F(0.4), F(-1.0)),
    "half_cauchy": (tfd.HalfCauchy, (F(0.1), F(1.2)), ("loc", "scale"), F(0.8), F(1.5)),
    "half_normal": (tfd.HalfNormal, (F(1.2),), ("scale",), F(0.8), F(1.5)),
    "half_student_t": (tfd.HalfStudentT, (F(3.0), F(0.1), F(1.2)), ("df", "loc", "scale"), F(0.8), F(1.5)),
    "inverse_gamma": (tfd.InverseGamma, (F(2.0), F(1.5)), ("concentration", "scale"), F(0.7), F(1.2)),
    "inverse_gaussian": (tfd.InverseGaussian, (F(1.1), F(2.0)), ("loc", "concentration"), F(0.7), F(1.2)),
    "kumaraswamy": (tfd.Kumaraswamy, (F(2.0), F(3.0)), ("concentration1", "concentration0"), F(0.3), F(0.6)),
    "lambert_w_normal": (tfd.LambertWNormal, (F(0.1), F(1.2), F(0.2)), ("loc", "scale", "tailweight"), F(0.4), F(-1.0)),
    "laplace": (tfd.Laplace, (F(0.1), F(1.2)), ("loc", "scale"), F(0.4), F(-1.0)),
    "log_normal": (tfd.LogNormal, (F(0.1), F(1.2)), ("loc", "scale"), F(0.7), F(1.2)),
    "logit_normal": (tfd.LogitNormal, (F(0.1), F(1.2)), ("loc", "scale"), F(0.3), F(0.6)),
    "moyal": (tfd.Moyal, (F(0.1), F(1.2)), ("loc", "scale"), F(0.4), F(-1.0)),
    "multinomial": (tfd.Multinomial, (F(4.0), V(0.1, -0.2, 0.4)), ("total_count", "logits"), V(1.0, 1.0, 2.0), V(0.0, 2.0, 2.0)),
    "mv_normal_diag": (tfd.MultivariateNormalDiag, (V(0.1, -0.3), V(1.2, 0.7)), ("loc", "scale_diag"), V(0.4, 0.2), V(-1.0, 0.5)),
    "mv_normal": (tfd.MultivariateNormalFullCovariance, (V(0.1, -0.3), jnp.array([[1.5, 0.3], [0.3, 0.8]], jnp.float32)), ("loc", "covariance_matrix"), V(0.4, 0.2), V(-1.0, 0.5)),
    "negative_binomial": (tfd.NegativeBinomial, (F(5.0), F(0.2)), ("total_count", "logits"), F(2.0), F(3.0)),
    "normal": (tfd.Normal, (F(0.1), F(1.2)), ("loc", "scale"), F(0.4), F(-1.0)),
    "poisson": (tfd.Poisson, (F(1.5),), ("rate",), F(2.0), F(0.0)),
    "power_spherical": (tfd.PowerSpherical, (V(0.6, 0.8), F(2.0)), ("mean_direction", "concentration"), V(0.8, 0.6), V(0.0, 1.0)),
    "skellam": (tfd.Skellam, (F(1.5), F(0.7)), ("rate1", "rate2"), F(1.0), F(-1.0)),
    "student_t": (tfd.StudentT, (F(3.0), F(0.1), F(1.2)), ("df", "loc", "scale"), F(0.4), F(-1.0)),
    "truncated_cauchy": (tfd.TruncatedCauchy, (F(0.1), F(1.2), F(-1.0), F(2.0)), ("loc", "scale", "low", "high"), F(0.4), F(-0.5)),
    "truncated_normal": (tfd.TruncatedNormal, (F(0.1), F(1.2), F(-1.0), F(2.0)), ("loc", "scale", "low", "high"), F(0.4), F(-0.5)),
    "uniform": (tfd.Uniform, (F(-1.0), F(2.0)), ("low", "high"), F(0.4), F(-0.5)),
    "von_mises": (tfd.VonMises, (F(0.1), F(1.2)), ("loc", "concentration"), F(0.4), F(-1.0)),
    "von_mises_fisher": (tfd.VonMisesFisher, (V(0.6, 0.8), F(2.0)), ("mean_direction", "concentration"), V(0.8, 0.6), V(0.0, 1.0)),
    "weibull": (tfd.Weibull, (F(1.5), F(1.2)), ("concentration", "scale"), F(0.7), F(1.2)),
    "zipf": (tfd.Zipf, (F(2.5),), ("power",), F(2.0), F(1.0)),
}


# parameters / values that must keep their template value (simplex, unit norm, PSD, integer counts tied to totals)
CHAINED_QUICK = ("normal", "gamma", "beta", "bernoulli", "categorical", "flip", "uniform", "mv_normal_diag", "poisson", "dirichlet")

FIXED = {
    "dirichlet": ((), True), "dirichlet_multinomial": ((0,), True), "multinomial": ((0,), True), "mv_normal": ((1,), False),
    "power_spherical": ((0,), True), "von_mises_fisher": ((0,), True), "beta_binomial": ((0,), False), "binomial": ((0,), False),
    "negative_binomial": ((0,), False), "truncated_cauchy": ((2, 3), False), "truncated_normal": ((2, 3), False), "uniform": ((), False),
}


def box(sym, tmpl):
    """keep every symbolic element within a box around its template value (stays inside the parameter domain)"""
    import numpy as np

    out = []
    t = np.asarray(tmpl, dtype=float)
    for idx in np.ndindex(*t.shape):
        e, c = sym[idx], float(t[idx])
        if isinstance(e, (int, float, bool)) or not hasattr(e, "sort"):
            continue
        if str(e.sort()) == "Bool":
            continue
        lo, hi = (0.6 * c, 1.4 * c) if c > 0 else ((1.4 * c, 0.6 * c) if c < 0 else (-0.4, 0.4))
        if str(e.sort()) == "Int":
            continue
        out += [e >= lo, e <= hi]
    return out


def obligations(tier, seed):
    obs = []
    exported = [n for n in T if hasattr(genjax, n) and n not in TOO_LARGE]
    for nm in exported:
        ctor, params, kws, v, v2 = T[nm]
        g = getattr(genjax, nm)
        fixp, fixv = FIXED.get(nm, ((), False))

        def fix(p, val, val2=None, params=params, v=v, v2=v2, fixp=fixp, fixv=fixv):
            p = tuple(params[i] if i in fixp else x for i, x in enumerate(p))
            if fixv:
                return p, v, v2
            return p, val, val2

        def lp(val, *p, ctor=ctor):
            return jnp.sum(ctor(*p).log_prob(val))

        def A(key, p, *vals, params=params, v=v, v2=v2):
            out = []
            for sp, tp in zip(p, params):
                out += box(sp, tp)
            for sv, tv in zip(vals, (v, v2)):
                out += box(sv, tv)
            if nm_is(nm, "uniform"):
                pass
            return out

        def dens(key, p, val, val2, g=g, lp=lp, fix=fix):
            p, val, val2 = fix(p, val, val2)
            sc, rv = g.assess(C.v(val), p)
            tr, w = g.importance(key, C.v(val), p)
            tr2, w2, rd, bwd = tr.update(key, C.v(val2))
            tr3, w3, _, _ = tr.update(key, C.n(), Diff.unknown_change(p))
            return (sc, rv, tr.get_score(), w, tr2.get_score(), w2, bwd.get_value(), w3), (lp(val, *p), val, lp(val, *p), lp(val, *p), lp(val2, *p), lp(val2, *p) - lp(val, *p), val, jnp.float32(0.0))

        obs.append(Ob(f"C24/density/{nm}", dens, (gfi.KEY, params, v, v2), assume=A, selfcheck=(nm not in ("mv_normal",)), timeout_s=20,
                      note="assess / importance / update scores and weights == summed tfd log_prob of the value"))

        def mupd(key, p, p2, val, val2, flag, g=g, lp=lp, fix=fix):
            p, val, val2 = fix(p, val, val2)
            p2 = fix(p2, val, val2)[0]
            tr, _ = g.importance(key, C.v(val), p)
            tr2, w2, rd, bwd = tr.update(key, C.v(val2).mask(flag), Diff.unknown_change(p2))
            new = jnp.where(flag, lp(val2, *p2), lp(val, *p2))
            kept = jax.tree_util.tree_map(lambda a, b: jnp.where(flag, a, b), val2, val)
            return (tr2.get_score(), w2, tr2.get_choices().get_value()), (new, new - lp(val, *p), kept)

        obs.append(Ob(f"C24/masked-update/{nm}", mupd, (gfi.KEY, params, params, v, v2, jnp.array(True)), assume=lambda key, p, p2, *vals, A=A: A(key, p, *vals[:2]) + A(key, p2), selfcheck=False, timeout_s=20,
                      note="update with a constraint masked by a traced flag and changed parameters: score == log_prob of the kept/new value under the NEW parameters, weight == new - old"))

        if tier == "thorough" or nm in CHAINED_QUICK:
            def chained(key, p, p2, val, val2, g=g, lp=lp, fix=fix):
                p, val, val2 = fix(p, val, val2)
                p2 = fix(p2, val, val2)[0]
                tr, _ = g.importance(key, C.v(val), p)
                tr1, w1, _, _ = tr.update(key, C.v(val2), Diff.unknown_change(p2))
                tr2, w2, _, _ = tr1.update(key, C.v(val))  # argdiffs default: no change of the RETURNED trace's arguments
                tr3, w3, _, _ = tr1.update(key, C.n())
                return ((tr1.get_score(), w1, tuple(tr1.get_args()), tr2.get_score(), w2, tuple(tr2.get_args()), tr3.get_score()),
                        (lp(val2, *p2), lp(val2, *p2) - lp(val, *p), tuple(p2), lp(val, *p2), lp(val, *p2) - lp(val2, *p2), tuple(p2), lp(val2, *p2)))

            obs.append(Ob(f"C24/chained-update/{nm}", chained, (gfi.KEY, params, params, v, v2), assume=lambda key, p, p2, *vals, A=A: A(key, p, *vals[:2]) + A(key, p2), selfcheck=False, timeout_s=20,
                          note="update(value, changed parameters) then update(value) on the returned trace: the returned trace carries the NEW parameters; the second score / weight are log_probs under them"))

        def sim(key, p, g=g, lp=lp, fix=fix):
            p = fix(p, None)[0]
            tr = g.simulate(key, p)
            x = tr.get_retval()
            return (tr.get_score(), tr.get_choices().get_value()), (lp(x, *p), x)

        obs.append(Ob(f"C24/simulate-score/{nm}", sim, (gfi.KEY, params), assume=A, selfcheck=False, timeout_s=20, note="simulate: score == summed tfd log_prob of the sampled value; the choice map holds the sample"))
        if kws:
            def kw(key, p, val, g=g, kws=kws, fix=fix):
                p, val, _ = fix(p, val)
                a1 = g(**dict(zip(kws, p))).assess(C.v(val), ())
                a2 = g.assess(C.v(val), p)
                t1 = g(**dict(zip(kws, p))).simulate(key, ())
                t2 = g.simulate(key, p)
                return (a1, t1.get_score(), t1.get_retval()), (a2, t2.get_score(), t2.get_retval())

            obs.append(Ob(f"C24/kwargs=positional/{nm}", kw, (gfi.KEY, params, v), assume=A, selfcheck=False, timeout_s=20, note="keyword invocation through the closure/kwargle path == positional invocation"))

        def dt(key, p, g=g, ctor=ctor, fix=fix):
            p = fix(p, None)[0]
            x = g.simulate(key, p).get_retval()
            d = ctor(*p)
            return (jnp.int32(x.dtype == d.dtype), jnp.int32(tuple(x.shape) == tuple(d.batch_shape) + tuple(d.event_shape))), (jnp.int32(1), jnp.int32(1))

        obs.append(Ob(f"C24/sample-dtype-shape/{nm}", dt, (gfi.KEY, params), selfcheck=False, timeout_s=20, note="sample dtype == the TFP distribution's dtype (flip -> bool); sample shape == batch+event shape"))
    # ---- batch shapes: parameters (and the value) with a leading batch axis of 2: scores are SUMMED log_probs
    batched = ["normal", "gamma", "beta", "bernoulli", "exponential", "laplace", "uniform", "flip", "poisson", "cauchy"] if tier == "quick" else [n for n in exported if jnp.ndim(T[n][3]) == 0 and n not in FIXED]
    for nm in batched:
        if nm not in exported:
            continue
        ctor, params, kws, v, v2 = T[nm]
        g = getattr(genjax, nm)
        two = lambda x, d: jnp.stack([x, x + d]) if jnp.issubdtype(jnp.asarray(x).dtype, jnp.floating) else jnp.stack([x, x])  # noqa: E731
        bp = tuple(two(x, 0.125) for x in params)
        bv, bv2 = two(v, 0.0625), two(v2, 0.0625)

        def bdens(key, p, val, val2, g=g, ctor=ctor):
            lpv = lambda x: jnp.sum(ctor(*p).log_prob(x))  # noqa: E731
            sc, rv = g.assess(C.v(val), p)
            tr, w = g.importance(key, C.v(val), p)
            tr2, w2, rd, bwd = tr.update(key, C.v(val2))
            trs = g.simulate(key, p)
            return (sc, tr.get_score(), w, tr2.get_score(), w2, trs.get_score(), jnp.int32(tuple(trs.get_retval().shape) == (2,))), (lpv(val), lpv(val), lpv(val), lpv(val2), lpv(val2) - lpv(val), lpv(trs.get_retval()), jnp.int32(1))

        def BA(key, p, val, val2, params=bp, bv=bv, bv2=bv2):
            out = []
            for sp, tp in zip(p, params):
                out += box(sp, tp)
            out += box(val, bv) + box(val2, bv2)
            return out

        obs.append(Ob(f"C24/batch-shape[2]/{nm}", bdens, (gfi.KEY, bp, bv, bv2), assume=BA, selfcheck=False, timeout_s=20,
                      note="parameters and value with batch shape (2,): assess / importance / update / simulate scores and weights == the SUM over the batch of tfd log_prob; the sample has the batch shape"))
    return obs


def nm_is(a, b):
    return a == b
