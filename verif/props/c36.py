"""C36: the stateful interpreter is transparent for unhandled primitives."""
import jax
import jax.numpy as jnp
from genjax._src.core.compiler.initial_style_primitive import InitialStylePrimitive, initial_style_bind
from genjax._src.core.compiler.interpreters.stateful import StatefulHandler, stateful

from verif.engine import Ob
from verif.jaxfuncs import FUNCS

LEVEL = "translation_validation"
BOUNDS = {"functions": "the 14-function interpreter grammar plus functions containing initial-style primitives (at top level, inside cond and inside scan)", "handler": "handles no primitive"}
ASSUMPTIONS = []
OUTSIDE = ["handlers that handle primitives (exercised through the static language in C01-C07)"]


class Null(StatefulHandler):
    def handles(self, primitive):
        return False

    def dispatch(self, primitive, *args, **kwargs):
        raise AssertionError


probe_p = InitialStylePrimitive("verif_probe")


def wrapped_affine(x, y):
    return initial_style_bind(probe_p)(lambda a, b: (a * 2.0 + b, {"k": a - b}))(x, y)


def isp_top(x, y):
    r, d = wrapped_affine(x, y)
    return r * d["k"]


def isp_in_cond(c, x, y):
    return jax.lax.cond(c, lambda a, b: wrapped_affine(a, b)[0], lambda a, b: a, x, y)


def isp_in_scan(c, xs):
    return jax.lax.scan(lambda carry, x: (wrapped_affine(carry, x)[0], carry), c, xs)


F = lambda v: jnp.asarray(v, jnp.float32)  # noqa: E731
EXTRA = {
    "isp_top": (isp_top, (F(1.0), F(2.0))),
    "isp_in_cond": (isp_in_cond, (jnp.array(True), F(1.0), F(2.0))),
    "isp_in_scan": (isp_in_scan, (F(1.0), jnp.array([1.0, 2.0, 3.0], jnp.float32))),
}


def obligations(tier, seed):
    obs = []
    for nm, (f, args) in {**FUNCS, **EXTRA}.items():
        obs.append(Ob(f"C36/transparent/{nm}", lambda *a, f=f: (stateful(f)(Null(), *a), f(*a)), args, note="stateful(f)(null handler, *x) == f(*x) for all x"))
    for nm, (f, args) in EXTRA.items():
        plain = {"isp_top": lambda x, y: (x * 2.0 + y) * (x - y),
                 "isp_in_cond": lambda c, x, y: jnp.where(c, x * 2.0 + y, x),
                 "isp_in_scan": lambda c, xs: jax.lax.scan(lambda carry, x: (carry * 2.0 + x, carry), c, xs)}[nm]
        obs.append(Ob(f"C36/initial-style=wrapped-function/{nm}", lambda *a, f=f, plain=plain: (stateful(f)(Null(), *a), plain(*a)), args,
                      note="an initial-style primitive evaluates to its wrapped function"))
    return obs
