"""C36: the stateful interpreter is transparent for unhandled primitives."""
import jax
import jax.numpy as jnp
from genjax._src.core.compiler.initial_style_primitive import InitialStylePrimitive, initial_style_bind
from genjax._src.core.compiler.interpreters.stateful import StatefulHandler, stateful

from verif.engine import Ob
from verif.jaxfuncs import FUNCS

LEVEL = "translation_validation"
BOUNDS = {"functions": "the 14-function interpreter grammar plus functions containing initial-style primitives (at top level, inside cond and inside scan)", "handler": "handles no primitive", "dtypes": "float32 / int32 / bool inputs throughout, plus Python-scalar (weakly typed) arguments meeting int16 / float16 arrays; output dtypes and weak-type flags are compared as constants"}
ASSUMPTIONS = []
OUTSIDE = ["handlers that handle primitives (exercised through the static language in C01-C07)"]


class Null(StatefulHandler):
    def handles(self, primitive):
        return False

    def dispatch(self, primitive, *args, **kwargs):
        raise AssertionError


probe_p = InitialStylePrimitive("verif_probe")


def wrapped_affine(x, y):
    return initial_style_bind(probe_p)(lambda a, b: (a * 2.0 + b, {"k": a - b}))(x, y)


def isp_top(x, y):
    r, d = wrapped_affine(x, y)
    return r * d["k"]


def isp_in_cond(c, x, y):
    return jax.lax.cond(c, lambda a, b: wrapped_affine(a, b)[0], lambda a, b: a, x, y)


def isp_in_scan(c, xs):
    return jax.lax.scan(lambda carry, x: (wrapped_affine(carry, x)[0], carry), c, xs)


F = lambda v: jnp.asarray(v, jnp.float32)  # noqa: E731
EXTRA = {
    "isp_top": (isp_top, (F(1.0), F(2.0))),
    "isp_in_cond": (isp_in_cond, (jnp.array(True), F(1.0), F(2.0))),
    "isp_in_scan": (isp_in_scan, (F(1.0), jnp.array([1.0, 2.0, 3.0], jnp.float32))),
}


def dtypes(t):
    """dtype and weak-type of every output leaf as integer constants (static facts of the staged program)"""
    return [jnp.int32(jnp.dtype(jnp.result_type(x)).num * 2 + int(bool(getattr(jax.core.get_aval(x), "weak_type", False)))) for x in jax.tree_util.tree_leaves(t)]


def with_dtypes(a, b):
    return (a, dtypes(a)), (b, dtypes(b))


# Python scalars (weakly typed) meeting narrow-dtype arrays: type promotion inside the staged program must be that of ordinary evaluation
def weak_gain(px):
    g = lambda x, k: x * k + 1  # noqa: E731
    return with_dtypes(stateful(g)(Null(), px, 2), g(px, 2))


def weak_cond(c, h):
    g = lambda c, x, k: jax.lax.cond(c, lambda x: x * k, lambda x: x, x)  # noqa: E731
    return with_dtypes(stateful(g)(Null(), c, h, 1.5), g(c, h, 1.5))


def weak_mix(h, y):
    g = lambda x, k, y: (x * k, y * k, k + 1)  # noqa: E731
    return with_dtypes(stateful(g)(Null(), h, 3, y), g(h, 3, y))


WEAK = {
    "python-int*int16": (weak_gain, (jnp.array([10, 100, 200], jnp.int16),)),
    "python-float*float16-in-cond": (weak_cond, (jnp.array(True), jnp.array([1.0, 2.0], jnp.float16))),
    "python-int*(float16,float32)": (weak_mix, (jnp.array([1.0, 2.0], jnp.float16), F(2.0))),
}


def obligations(tier, seed):
    obs = []
    for nm, (f, args) in {**FUNCS, **EXTRA}.items():
        obs.append(Ob(f"C36/transparent/{nm}", lambda *a, f=f: with_dtypes(stateful(f)(Null(), *a), f(*a)), args, note="stateful(f)(null handler, *x) == f(*x) for all x, with the same output dtypes"))
    for nm, (h, args) in WEAK.items():
        obs.append(Ob(f"C36/weak-types/{nm}", h, args, selfcheck=False, note="Python-scalar arguments next to narrow-dtype arrays: values and result dtypes (type promotion) as in ordinary evaluation"))
    for nm, (f, args) in EXTRA.items():
        plain = {"isp_top": lambda x, y: (x * 2.0 + y) * (x - y),
                 "isp_in_cond": lambda c, x, y: jnp.where(c, x * 2.0 + y, x),
                 "isp_in_scan": lambda c, xs: jax.lax.scan(lambda carry, x: (carry * 2.0 + x, carry), c, xs)}[nm]
        obs.append(Ob(f"C36/initial-style=wrapped-function/{nm}", lambda *a, f=f, plain=plain: (stateful(f)(Null(), *a), plain(*a)), args,
                      note="an initial-style primitive evaluates to its wrapped function"))
    return obs
