"""C14: mask - a true flag is transparent and a false flag is inert."""
import jax
import jax.numpy as jnp
from genjax import Diff, Update

from verif import gfi, programs as PG
from verif.engine import Ob

LEVEL = "model_checking"
BOUNDS = {"inner programs": "inner1, inner2, scan(walk), vmap-wrapped (vector flags)", "flags": "symbolic scalar flags; symbolic vector flags under vmap; concrete Python True/False",
          "transitions": "all four pre/post flag combinations in one query (both flags symbolic)"}
ASSUMPTIONS = ["oracle: the inner program's own GFI (transparent case) and the reference denotation"]
OUTSIDE = ["MaskCombinator.project (NotImplementedError)"]


def obligations(tier, seed):
    cat = PG.catalogue()
    obs = []
    for nm in ["mask(inner1)", "mask(inner2)", "static(mask)", "vmap(mask)"] + (["mask(scan)"] if tier == "thorough" else []):
        obs += gfi.family("C14", nm, cat[nm](), tier)
    for nm, mk in [("inner1", PG.inner1), ("inner2", PG.inner2)]:
        K = mk()
        P = PG.MaskP(K)

        def f(key, args, vals, K=K, P=P):
            flag = args[0]
            tr, w = P.gf.importance(key, P.chm(vals), args)
            sc, rv = P.gf.assess(P.chm(vals), args)
            itr, iw = K.gf.importance(key, K.chm(vals), tuple(args[1:]))
            ch = gfi.chm_view(P, tr.get_choices())
            ich = gfi.chm_view(K, itr.get_choices())
            lhs = [tr.get_score(), w, sc, tr.get_retval().primal_flag(), rv.primal_flag(), jnp.where(flag, tr.get_retval().value, 0.0)]
            rhs = [jnp.where(flag, itr.get_score(), 0.0), jnp.where(flag, iw, 0.0), jnp.where(flag, itr.get_score(), 0.0), flag, flag, jnp.where(flag, itr.get_retval(), 0.0)]
            for a, b in zip(ch, ich):
                lhs += [a[1], jnp.where(flag, a[0], 0.0)]
                rhs += [jnp.logical_and(flag, b[1]), jnp.where(flag, b[0], 0.0)]
            return lhs, rhs

        obs.append(Ob(f"C14/transparent-or-inert/mask({nm})", f, (gfi.KEY, P.args, P.example_vals()),
                      note="flag True: score/weight/choices/retval are the inner program's, retval mask valid; flag False: score 0, weight 0, no choices, invalid retval mask"))

        # concrete Python flags take the shortcut paths
        for cf in (True, False):
            def fc(key, iargs, vals, K=K, P=P, cf=cf):
                args = (cf,) + tuple(iargs)
                tr, w = P.gf.importance(key, P.chm(vals), args)
                itr, iw = K.gf.importance(key, K.chm(vals), tuple(iargs))
                sc = tr.get_score()
                return (sc, w), ((itr.get_score(), iw) if cf else (jnp.float32(0.0), jnp.float32(0.0)))

            obs.append(Ob(f"C14/concrete-flag-{cf}/mask({nm})", fc, (gfi.KEY, K.args, K.example_vals()), note="Python-bool flag: same results as the traced flag"))

        def g(key, args, vals, vals2, post, K=K, P=P):
            tr, _ = P.gf.importance(key, P.chm(vals), args)
            new_args = (post,) + tuple(args[1:])
            tr2, w, rd, bwd = Update(P.chm(vals2)).edit(key, tr, (Diff.unknown_change(post),) + tuple(Diff.no_change(a) for a in args[1:]))
            r_old, r_new = P.ref(args, vals), P.ref(new_args, vals2)
            lhs, rhs = gfi.full_view(P, tr2)
            return lhs + [w, tr2.get_score()], rhs + [r_new.score - r_old.score, r_new.score]

        obs.append(Ob(f"C14/flag-transition/mask({nm})", g, (gfi.KEY, P.args, P.example_vals(), gfi.perturb_vals(P), jnp.array(False)),
                      note="update with symbolic pre and post flags (all four transitions) and a full constraint: weight == newscore - oldscore"))
    return obs
