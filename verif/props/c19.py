"""C19: Mask algebra matches its truth tables for concrete and traced flags."""
import itertools

import jax
import jax.numpy as jnp
from genjax import Mask

from verif.engine import Ob

LEVEL = "model_checking"
BOUNDS = {"expressions": "12 Mask expressions over up to 3 masks (|, ^, ~, or_n, xor_n, build, flatten, maybe_mask, unmask(default), nesting)", "flags": "symbolic scalar flags, symbolic vector flags (length 2), every concrete/traced combination (3^k taggings: True/False/traced per flag)",
          "values": "symbolic pytree payloads (pair of arrays)", "vmap": "jax.vmap of the scalar expression vs the vectorised-flag expression"}
ASSUMPTIONS = ["observable = (flag, payload where flag is True); the truth tables are written with plain jnp logic"]
OUTSIDE = ["flags of rank > 1", "Diff-wrapped flags", "~ applied to the result of | or ^ (the payload of an invalid mask is unspecified, so inverting it exposes an arbitrary value)"]


def obs_of(m, like):
    """(flag, payload masked to zero where invalid) of a Mask / raw value / None."""
    if m is None:
        return (jnp.zeros(jnp.shape(like[0]), bool), jax.tree_util.tree_map(jnp.zeros_like, like))
    if not isinstance(m, Mask):
        return (jnp.ones(jnp.shape(like[0]), bool), m)
    f = jnp.asarray(m.primal_flag())
    f = jnp.broadcast_to(f, jnp.shape(like[0]))
    return (f, jax.tree_util.tree_map(lambda v: jnp.where(_bf(f, v), v, jnp.zeros_like(v)), m.value))


def pick(f1, v1, f2, v2):
    """left-biased choice of payloads"""
    return jax.tree_util.tree_map(lambda a, b: jnp.where(_bf(f1, a), a, b), v1, v2)


def t_or(a, b):
    return (jnp.logical_or(a[0], b[0]), pick(a[0], a[1], b[0], b[1]))


def t_xor(a, b):
    return (jnp.logical_xor(a[0], b[0]), pick(a[0], a[1], b[0], b[1]))


def t_not(a):
    return (jnp.logical_not(a[0]), a[1])


# name -> (number of masks, real expression over Mask objects (+ extra flag/default), truth table over (flag, value) pairs)
EXPRS = {
    "or": (2, lambda m, e: m[0] | m[1], lambda t, e: t_or(t[0], t[1])),
    "xor": (2, lambda m, e: m[0] ^ m[1], lambda t, e: t_xor(t[0], t[1])),
    "not": (1, lambda m, e: ~m[0], lambda t, e: t_not(t[0])),
    "or_n3": (3, lambda m, e: Mask.or_n(m[0], m[1], m[2]), lambda t, e: t_or(t_or(t[0], t[1]), t[2])),
    "xor_n3": (3, lambda m, e: Mask.xor_n(m[0], m[1], m[2]), lambda t, e: t_xor(t_xor(t[0], t[1]), t[2])),
    "(a|b)^c": (3, lambda m, e: (m[0] | m[1]) ^ m[2], lambda t, e: t_xor(t_or(t[0], t[1]), t[2])),
    "(~a)|b": (2, lambda m, e: (~m[0]) | m[1], lambda t, e: t_or(t_not(t[0]), t[1])),
    "(~a)^(b|c)": (3, lambda m, e: (~m[0]) ^ (m[1] | m[2]), lambda t, e: t_xor(t_not(t[0]), t_or(t[1], t[2]))),
    "build(a,f)": (1, lambda m, e: Mask.build(m[0], e[0]), lambda t, e: (jnp.logical_and(t[0][0], e[0]), t[0][1])),
    "build(a|b,f)": (2, lambda m, e: Mask.build(m[0] | m[1], e[0]), lambda t, e: (jnp.logical_and(t_or(t[0], t[1])[0], e[0]), t_or(t[0], t[1])[1])),
    "maybe_mask(a,f)": (1, lambda m, e: Mask.maybe_mask(m[0], e[0]), lambda t, e: (jnp.logical_and(t[0][0], e[0]), t[0][1])),
    "flatten(a^b)": (2, lambda m, e: (m[0] ^ m[1]).flatten(), lambda t, e: t_xor(t[0], t[1])),
    "unmask(a|b,d)": (2, lambda m, e: (m[0] | m[1]).unmask(default=e[1]), None),
}


def mk(name, shape, tagging):
    """tagging: per flag 'T', 'F' or 's' (symbolic)."""
    k, real, table = EXPRS[name]
    vals0 = [(jnp.full(shape, 1.0 + i, jnp.float32), jnp.full(shape + (2,), 0.5 + i, jnp.float32)) for i in range(k)]
    flags0 = [jnp.full(shape, True) for _ in range(k)]
    extra0 = (jnp.full(shape, True), (jnp.full(shape, 9.0, jnp.float32), jnp.full(shape + (2,), 8.0, jnp.float32)))

    def fn(flags, vals, extra):
        fl = []
        for f, t in zip(flags, tagging):
            fl.append(f if t == "s" else (t == "T"))
        masks = [Mask(v, f) for v, f in zip(vals, fl)]
        ex = (extra[0] if tagging[-1] == "s" or k == len(tagging) else (tagging[-1] == "T"), extra[1])
        out = real(masks, ex)
        tabs = [(jnp.broadcast_to(jnp.asarray(f), shape), v) for f, v in zip(fl, vals)]  # (flag, raw payload): ~ exposes the raw payload
        if name.startswith("unmask"):
            o = t_or(tabs[0], tabs[1])
            exp = jax.tree_util.tree_map(lambda v, d: jnp.where(_bf(o[0], v), v, d), o[1], extra[1])
            return out, exp
        exp = table(tabs, (jnp.broadcast_to(jnp.asarray(ex[0]), shape), ex[1]))
        expn = (exp[0], jax.tree_util.tree_map(lambda x: jnp.where(_bf(exp[0], x), x, 0.0), exp[1]))
        return obs_of(out, vals[0]), expn

    return fn, (flags0, vals0, extra0)


def _bf(f, v):
    f = jnp.asarray(f)
    return f.reshape(f.shape + (1,) * (jnp.ndim(v) - f.ndim))


def obligations(tier, seed):
    obs = []
    for name, (k, real, table) in EXPRS.items():
        for shape in ((), (2,)):
            tags = list(itertools.product("sTF", repeat=k)) if (shape == () and (tier == "thorough" or k <= 2)) else [tuple("s" * k)] + ([tuple("T" * k), tuple("F" * k), tuple(("s", "T", "F")[:k])] if shape == () else [])
            for tg in dict.fromkeys(tags):
                if shape == (2,) and any(t != "s" for t in tg):
                    continue
                fn, args = mk(name, shape, tg)
                obs.append(Ob(f"C19/{name}/{'scalar' if shape == () else 'vec2'}/{''.join(tg)}", fn, args,
                              note="Mask expression with flags tagged s(ymbolic)/T/F (Python bools) vs its truth table; payloads symbolic"))
        # vmap of the scalar expression == vectorised flags
        fn_s, _ = mk(name, (), tuple("s" * k))
        fn_v, args_v = mk(name, (2,), tuple("s" * k))

        def both(flags, vals, extra, fn_s=fn_s, fn_v=fn_v):
            a = jax.vmap(lambda f, v, e: fn_s(f, v, e)[0])(flags, vals, extra)
            b = fn_v(flags, vals, extra)[0]
            return a, b

        obs.append(Ob(f"C19/{name}/vmap=vectorised", both, args_v, note="jax.vmap over scalar-flag masks gives the same observable as vector flags"))
    return obs
