"""C10: project splits the score along a selection."""
import jax
import jax.numpy as jnp
from genjax import Selection as S

from verif import gfi, programs as PG
from verif.engine import Ob

LEVEL = "model_checking"
BOUNDS = {"programs": "catalogue programs whose combinators implement project (mask does not: NotImplementedError)", "selections": "all, none, each site address, each site's complement, pairwise unions, the wildcard at[..., last component], prefixes of hierarchical addresses"}
ASSUMPTIONS = ["reference: sum of the independent per-site log-density terms of the selected sites"]
OUTSIDE = ["MaskCombinator.project (not implemented)", "selections over index levels (indices are transparent to selections)"]


def sel_cases(P, tier):
    """(name, Selection, membership per site)"""
    n = len(P.sites)
    addrs = [s.static_addr for s in P.sites]
    cases = [("all", S.all(), [True] * n), ("none", S.none(), [False] * n)]
    for i, a in enumerate(addrs):
        if not a:
            continue
        cases.append((f"at{list(a)}", S.at[a], [b[:len(a)] == a for b in addrs]))
        cases.append((f"~at{list(a)}", ~S.at[a], [b[:len(a)] != a for b in addrs]))
        if len(a) > 1:
            cases.append((f"prefix{list(a[:1])}", S.at[a[:1]], [b[:1] == a[:1] for b in addrs]))
            cases.append((f"wild[...,{a[-1]}]", S.at[..., a[-1]], [len(b) >= 2 and b[-1] == a[-1] and len(b) == 2 for b in addrs]))
    if n >= 2 and addrs[0] and addrs[-1]:
        cases.append(("first|last", S.at[addrs[0]] | S.at[addrs[-1]], [b[:len(addrs[0])] == addrs[0] or b[:len(addrs[-1])] == addrs[-1] for b in addrs]))
        cases.append(("~first&~last", ~S.at[addrs[0]] & ~S.at[addrs[-1]], [not (b[:len(addrs[0])] == addrs[0] or b[:len(addrs[-1])] == addrs[-1]) for b in addrs]))
    seen, out = set(), []
    for c in cases:
        if c[0] not in seen:
            seen.add(c[0])
            out.append(c)
    return out if tier == "thorough" else out[:8]


def obligations(tier, seed):
    cat, names = gfi.prog_names(tier, lambda nm: "mask" not in nm and nm != "composed")
    obs = []
    for nm in names:
        P = cat[nm]()
        if "project" not in P.supports:
            continue
        A = gfi.base_assume(P, in_range=False)
        for sn, sel, member in sel_cases(P, tier):
            def f(key, args, vals, P=P, sel=sel, member=member):
                tr, _ = P.gf.importance(key, P.chm(vals), args)
                w = tr.project(key, sel)
                wc = tr.project(key, ~sel)
                r = P.ref(args, vals)
                expect = sum((jnp.sum(t) for t, m in zip(r.terms, member) if m), jnp.float32(0.0))
                return (w, w + wc), (expect, tr.get_score())

            obs.append(Ob(f"C10/project[{sn}]/{nm}", f, (gfi.KEY, P.args, P.example_vals()), assume=lambda k, a, v, A=A: A(a, v),
                          note="project(S) == sum of reference log-densities of the selected sites; project(S)+project(~S) == score"))
    # ---- traces produced by edits: "for any trace": after an Update (changed args) and after a Regenerate the projections
    # of the NEW trace are those of its own values and still add up to its own score
    from genjax import Diff, Regenerate, Update

    for nm in names:
        P = cat[nm]()
        if "project" not in P.supports:
            continue
        A = gfi.base_assume(P, in_range=False)
        args2 = jax.tree_util.tree_map(lambda x: x + 0.25 if jnp.issubdtype(jnp.asarray(x).dtype, jnp.floating) else x, P.args)
        cases = sel_cases(P, tier)
        sn, sel, member = cases[2] if len(cases) > 2 else cases[0]
        kinds = []
        if "update" in P.supports and not any(k in nm for k in ("switch", "or_else", "mix")):
            kinds.append("update")
        if "regenerate" in P.supports:
            kinds.append("regenerate")
        for kind in kinds:
            def g(key, key2, args, vals, vals2, args2, P=P, sel=sel, member=member, kind=kind):
                tr, _ = P.gf.importance(key, P.chm(vals), args)
                if kind == "update":
                    tr2, *_ = Update(P.chm(vals2, subset=(0,))).edit(key2, tr, Diff.unknown_change(args2))
                    new_args = args2
                else:
                    tr2, *_ = Regenerate(S.all()).edit(key2, tr, Diff.no_change(args))
                    new_args = args
                r = P.ref(new_args, gfi.trace_vals(P, tr2))
                expect = sum((jnp.sum(t) for t, m in zip(r.terms, member) if m), jnp.float32(0.0))
                w, wc = tr2.project(key, sel), tr2.project(key, ~sel)
                return (w, w + wc, tr2.project(key, S.all()), tr2.project(key, S.none())), (expect, tr2.get_score(), tr2.get_score(), jnp.float32(0.0))

            obs.append(Ob(f"C10/project-after-{kind}[{sn}]/{nm}", g, (gfi.KEY, jax.random.key(1), P.args, P.example_vals(), gfi.perturb_vals(P), args2),
                          assume=lambda k, k2, a, v, v2, a2, A=A: A(a, v) + A(a2, v2),
                          note="the trace returned by an edit: project(S) == reference terms at its own values, project(S)+project(~S) == project(all) == its score, project(none) == 0"))
    return obs
