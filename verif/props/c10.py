"""C10: project splits the score along a selection."""
import jax
import jax.numpy as jnp
from genjax import Selection as S

from verif import gfi, programs as PG
from verif.engine import Ob

LEVEL = "model_checking"
BOUNDS = {"programs": "catalogue programs whose combinators implement project (mask does not: NotImplementedError)", "selections": "all, none, each site address, each site's complement, pairwise unions, the wildcard at[..., last component], prefixes of hierarchical addresses"}
ASSUMPTIONS = ["reference: sum of the independent per-site log-density terms of the selected sites"]
OUTSIDE = ["MaskCombinator.project (not implemented)", "selections over index levels (indices are transparent to selections)"]


def sel_cases(P, tier):
    """(name, Selection, membership per site)"""
    n = len(P.sites)
    addrs = [s.static_addr for s in P.sites]
    cases = [("all", S.all(), [True] * n), ("none", S.none(), [False] * n)]
    for i, a in enumerate(addrs):
        if not a:
            continue
        cases.append((f"at{list(a)}", S.at[a], [b[:len(a)] == a for b in addrs]))
        cases.append((f"~at{list(a)}", ~S.at[a], [b[:len(a)] != a for b in addrs]))
        if len(a) > 1:
            cases.append((f"prefix{list(a[:1])}", S.at[a[:1]], [b[:1] == a[:1] for b in addrs]))
            cases.append((f"wild[...,{a[-1]}]", S.at[..., a[-1]], [len(b) >= 2 and b[-1] == a[-1] and len(b) == 2 for b in addrs]))
    if n >= 2 and addrs[0] and addrs[-1]:
        cases.append(("first|last", S.at[addrs[0]] | S.at[addrs[-1]], [b[:len(addrs[0])] == addrs[0] or b[:len(addrs[-1])] == addrs[-1] for b in addrs]))
        cases.append(("~first&~last", ~S.at[addrs[0]] & ~S.at[addrs[-1]], [not (b[:len(addrs[0])] == addrs[0] or b[:len(addrs[-1])] == addrs[-1]) for b in addrs]))
    seen, out = set(), []
    for c in cases:
        if c[0] not in seen:
            seen.add(c[0])
            out.append(c)
    return out if tier == "thorough" else out[:8]


def impossible_trace_obs():
    """traces holding a choice OUTSIDE its distribution's support (log-density -inf): an unselected choice still contributes exactly 0
    and the selected finite part is unaffected. The engine tracks +-inf / nan leaves exactly (SpecialIte); counterexamples are replayed
    under jax.jit (what the staged arithmetic computes), not eagerly."""
    import genjax
    from genjax import ChoiceMapBuilder as C
    from tensorflow_probability.substrates import jax as tfp

    tfd = tfp.distributions

    @genjax.gen
    def m():
        u = genjax.uniform(0.0, 2.0) @ "u"
        _ = genjax.normal(u, 1.0) @ "y"

    vm = genjax.uniform.vmap(in_axes=(0, 0))

    def f(key, uval, yval):
        tr, _ = m.importance(key, C["u"].set(uval) | C["y"].set(yval), ())
        lu, ly = tfd.Uniform(0.0, 2.0).log_prob(uval), tfd.Normal(uval, 1.0).log_prob(yval)
        return (tr.project(key, S.at["y"]), tr.project(key, S.none()), tr.project(key, S.at["u"]), tr.project(key, S.all())), (ly, jnp.float32(0.0), lu, lu + ly)

    def fv(key, uvals):
        lo, hi = jnp.zeros(2, jnp.float32), jnp.full((2,), 2.0, jnp.float32)
        tr, _ = vm.importance(key, C[jnp.arange(2)].set(uvals), (lo, hi))
        return (tr.project(key, S.none()), tr.project(key, S.all())), (jnp.float32(0.0), jnp.sum(tfd.Uniform(lo, hi).log_prob(uvals)))

    def jit_replay(fn):
        def replay(args):
            from verif.engine import tree_close

            lhs, rhs = jax.jit(fn)(*args)
            ok, d = tree_close(lhs, rhs)
            return (not ok), f"under jax.jit: {d}"

        return replay

    F = lambda v: jnp.asarray(v, jnp.float32)  # noqa: E731
    return [Ob("C10/impossible-trace/static(uniform;normal)", f, (gfi.KEY, F(2.5), F(0.3)), replay=jit_replay(f), selfcheck=False, timeout_s=30, exact_specials=True,
               note="the uniform site's value ranges over ALL reals (outside the support its log-density is -inf): project(selection not containing it) is the finite sum of the selected sites, project(none) == 0"),
            Ob("C10/impossible-trace/vmap(uniform)", fv, (gfi.KEY, jnp.asarray([0.5, 2.5], jnp.float32)), replay=jit_replay(fv), selfcheck=False, timeout_s=30, exact_specials=True,
               note="vmapped uniform with values over all reals: project(none) == 0, project(all) == the score")]


def obligations(tier, seed):
    cat, names = gfi.prog_names(tier, lambda nm: "mask" not in nm and nm != "composed")
    obs = impossible_trace_obs()
    for nm in names:
        P = cat[nm]()
        if "project" not in P.supports:
            continue
        A = gfi.base_assume(P, in_range=False)
        for sn, sel, member in sel_cases(P, tier):
            def f(key, args, vals, P=P, sel=sel, member=member):
                tr, _ = P.gf.importance(key, P.chm(vals), args)
                w = tr.project(key, sel)
                wc = tr.project(key, ~sel)
                r = P.ref(args, vals)
                expect = sum((jnp.sum(t) for t, m in zip(r.terms, member) if m), jnp.float32(0.0))
                return (w, w + wc), (expect, tr.get_score())

            obs.append(Ob(f"C10/project[{sn}]/{nm}", f, (gfi.KEY, P.args, P.example_vals()), assume=lambda k, a, v, A=A: A(a, v),
                          note="project(S) == sum of reference log-densities of the selected sites; project(S)+project(~S) == score"))
    # ---- traces produced by edits: "for any trace": after an Update (changed args) and after a Regenerate the projections
    # of the NEW trace are those of its own values and still add up to its own score
    from genjax import Diff, Regenerate, Update

    for nm in names:
        P = cat[nm]()
        if "project" not in P.supports:
            continue
        A = gfi.base_assume(P, in_range=False)
        args2 = jax.tree_util.tree_map(lambda x: x + 0.25 if jnp.issubdtype(jnp.asarray(x).dtype, jnp.floating) else x, P.args)
        cases = sel_cases(P, tier)
        sn, sel, member = cases[2] if len(cases) > 2 else cases[0]
        kinds = []
        if "update" in P.supports and not any(k in nm for k in ("switch", "or_else", "mix")):
            kinds.append("update")
        if "regenerate" in P.supports:
            kinds.append("regenerate")
        for kind in kinds:
            def g(key, key2, args, vals, vals2, args2, P=P, sel=sel, member=member, kind=kind):
                tr, _ = P.gf.importance(key, P.chm(vals), args)
                if kind == "update":
                    tr2, *_ = Update(P.chm(vals2, subset=(0,))).edit(key2, tr, Diff.unknown_change(args2))
                    new_args = args2
                else:
                    tr2, *_ = Regenerate(S.all()).edit(key2, tr, Diff.no_change(args))
                    new_args = args
                r = P.ref(new_args, gfi.trace_vals(P, tr2))
                expect = sum((jnp.sum(t) for t, m in zip(r.terms, member) if m), jnp.float32(0.0))
                w, wc = tr2.project(key, sel), tr2.project(key, ~sel)
                return (w, w + wc, tr2.project(key, S.all()), tr2.project(key, S.none())), (expect, tr2.get_score(), tr2.get_score(), jnp.float32(0.0))

            obs.append(Ob(f"C10/project-after-{kind}[{sn}]/{nm}", g, (gfi.KEY, jax.random.key(1), P.args, P.example_vals(), gfi.perturb_vals(P), args2),
                          assume=lambda k, k2, a, v, v2, a2, A=A: A(a, v) + A(a2, v2),
                          note="the trace returned by an edit: project(S) == reference terms at its own values, project(S)+project(~S) == project(all) == its score, project(none) == 0"))
    return obs
