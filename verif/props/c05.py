"""C05: update installs the constraint and weighs by the score change."""
import jax
import jax.numpy as jnp
from genjax import Diff, Update

from verif import gfi, programs as PG
from verif.engine import Ob

LEVEL = "model_checking"
BOUNDS = {"programs": "catalogue programs supporting Update", "constraint subsets": "empty/full/singletons (+ all subsets in thorough)", "argument changes": "none | all float args changed and tagged UnknownChange (shape-preserving)",
          "histories": "importance(full);update  and  importance(full);update;update"}
ASSUMPTIONS = ["'no new random choice is introduced' is decided per program: programs containing a switch whose index is tagged UnknownChange resample the branch (documented), so there the weight identity is asserted only when the constraint covers every site"]
OUTSIDE = ["argument changes that alter shapes", "updates that change a switch index without constraining the new branch (fresh draws: weight not specified by the property)"]


def has_switch(P):
    return any(k in P.name for k in ("switch", "or_else", "mix", "composed", "ssw"))


def masked(v, fl, s):
    fl = jnp.broadcast_to(jnp.asarray(fl), s.batch)
    return jnp.where(gfi._bf(fl, v), v, jnp.zeros_like(v)), fl


def view(P, chm):
    out = []
    for (v, fl), s in zip(P.read(chm), P.sites):
        if v is None:
            out.append((jnp.zeros_like(s.example), jnp.zeros(s.batch, bool)))
        else:
            out.append(masked(v, fl, s))
    return out


def obligations(tier, seed):
    cat, names = gfi.prog_names(tier)
    obs = []
    for nm in names:
        P = cat[nm]()
        if "update" not in P.supports:
            continue
        A = gfi.base_assume(P, in_range=False)
        n = len(P.sites)
        ex, ex2 = P.example_vals(), gfi.perturb_vals(P)
        args2 = jax.tree_util.tree_map(lambda x: x + 0.25 if jnp.issubdtype(x.dtype, jnp.floating) else x, P.args)
        subs = gfi.subsets(n, tier) if tier == "thorough" else list(dict.fromkeys([(), tuple(range(n))] + [(i,) for i in range(min(n, 4))]))
        for sub in subs:
            for chg in (False, True):
                resample = (chg and has_switch(P)) or (P.kind == 'mix' and 0 in sub)  # index tagged UnknownChange: branch is resampled

                def f(key, args, vals, vals2, args2, P=P, sub=sub, chg=chg, resample=resample):
                    tr, _ = P.gf.importance(key, P.chm(vals), args)
                    new_args = args2 if chg else args
                    ad = Diff.unknown_change(args2) if chg else Diff.no_change(args)
                    tr2, w, rd, bwd = Update(P.chm(vals2, subset=sub)).edit(key, tr, ad)
                    assert isinstance(bwd, Update)
                    lhs, rhs = [], []
                    # new arguments
                    lhs.append(tr2.get_args()); rhs.append(new_args)
                    new_view = view(P, tr2.get_choices())
                    old_view = view(P, tr.get_choices())
                    # expected values
                    merged = [vals2[i] if i in sub else vals[i] for i in range(len(vals))]
                    r_new = P.ref(new_args, merged)
                    covers = len(sub) == len(vals)
                    for i, s in enumerate(P.sites):
                        pres = jnp.broadcast_to(jnp.asarray(r_new.present[i]), s.batch)
                        if i in sub or not resample:
                            lhs.append(new_view[i]); rhs.append(masked(merged[i], pres, s))
                    if not resample or covers:
                        r_old = P.ref(args, vals)
                        lhs.append(w); rhs.append(r_new.score - r_old.score)
                        lhs.append(tr2.get_score()); rhs.append(r_new.score)
                        lhs.append(PG.norm_ret(P, tr2.get_retval())); rhs.append(PG.norm_ret(P, r_new.retval))
                    if not resample:
                        # backward constraint: exactly the previous values at the overwritten addresses.
                        # overwritten = constrained, present before and after; an address absent before has no
                        # previous value (flag must be false); an address that disappears is left unconstrained here
                        bv = view(P, bwd.constraint)
                        r_old = P.ref(args, vals)
                        for i, s in enumerate(P.sites):
                            was = jnp.broadcast_to(jnp.asarray(r_old.present[i]), s.batch)
                            now = jnp.broadcast_to(jnp.asarray(r_new.present[i]), s.batch)
                            both = jnp.logical_and(was, now)
                            if i in sub:
                                lhs.append(masked(bv[i][0], both, s)[0]); rhs.append(masked(vals[i], both, s)[0])
                                lhs.append(jnp.where(jnp.logical_or(both, ~was), bv[i][1], False)); rhs.append(both)
                            else:
                                lhs.append(jnp.where(jnp.logical_or(both, ~was), bv[i][1], False)); rhs.append(jnp.zeros(s.batch, bool))
                    return lhs, rhs

                obs.append(Ob(f"C05/update{list(sub)}{'+args' if chg else ''}/{nm}", f, (gfi.KEY, P.args, ex, ex2, args2),
                              assume=lambda k, a, v, v2, a2, A=A: A(a, v) + A(a2, v2),
                              note="importance(full vals); Update(chm(vals2 on S), args changed?) -> new args, choices, weight=newscore-oldscore (reference), backward constraint"))
        obs += gfi.update_at_index_obs("C05", nm, P)
    return obs
