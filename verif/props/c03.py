"""C03: importance weights equal the log-density of the constrained choices."""
import jax.numpy as jnp

from verif import gfi, programs as PG
from verif.engine import Ob

LEVEL = "model_checking"
BOUNDS = {"programs": "catalogue", "constraint subsets": "all subsets for <=3 sites (thorough <=4), else empty/full/singletons/co-singletons", "array_length": "<=3",
          "constraint styles": "full slices [:, addr] and arange index arrays"}
ASSUMPTIONS = ["unconstrained values are the draw atoms of the trace; the reference log-density terms are evaluated at the trace's own values"]
OUTSIDE = ["masked constraint values (C35)", "per-index partial constraints inside vmap/scan (C11/C12)"]


def obligations(tier, seed):
    cat, names = gfi.prog_names(tier)
    obs = []
    for nm in names:
        P = cat[nm]()
        A = gfi.base_assume(P, in_range=False)
        n = len(P.sites)
        styles = ["slice"] + (["arange"] if P.kind in ("vmap", "scan", "repeat") and all(len(s.batch) == 1 for s in P.sites) else [])
        for style in styles:
            for sub in gfi.subsets(n, tier):
                def f(key, args, vals, P=P, sub=sub, style=style):
                    tr, w = P.gf.importance(key, P.chm(vals, subset=sub, style=style), args)
                    got = P.read(tr.get_choices())
                    tvals = [g[0] if g[0] is not None else s.example for g, s in zip(got, P.sites)]
                    r = P.ref(args, tvals)
                    expect_w = sum((jnp.sum(r.terms[i]) for i in sub), jnp.float32(0.0))
                    lhs = [w, tr.get_score()]
                    rhs = [expect_w, r.score]
                    for i in sub:
                        v, fl = got[i]
                        fl = jnp.broadcast_to(jnp.asarray(fl), P.sites[i].batch)
                        m = gfi._bf(fl, vals[i])
                        lhs.append(jnp.where(m, v, jnp.zeros_like(v)))
                        rhs.append(jnp.where(m, vals[i], jnp.zeros_like(vals[i])))
                        # a constrained site is present exactly when the reference says so
                        lhs.append(fl)
                        rhs.append(jnp.broadcast_to(jnp.asarray(r.present[i]), P.sites[i].batch))
                    return lhs, rhs

                tag = "" if style == "slice" else "@arange"
                obs.append(Ob(f"C03/importance{list(sub)}{tag}/{nm}", f, (gfi.KEY, P.args, P.example_vals()), assume=lambda k, a, v, A=A: A(a, v),
                              note="weight == sum of reference log-densities of exactly the constrained sites; trace agrees with the constraint; score == reference joint at the trace's values"))
    # ---- partially applied programs (closures gen_fn(*bound)) are programs too: bound arguments come first
    for nm, nb in (("vmap(innerS;0,None)", 1), ("contramap(innerS)", 0), ("dimap(inner1)", 1), ("scan(walk)", 1)):
        if nm not in cat:
            continue
        P = cat[nm]()
        if nb == 0 or len(P.args) < 2:
            continue
        A = gfi.base_assume(P, in_range=False)
        for sub in ((), tuple(range(len(P.sites)))):
            def fc(key, args, vals, P=P, nb=nb, sub=sub):
                clo = P.gf(*args[:nb])
                tr, w = clo.importance(key, P.chm(vals, subset=sub), tuple(args[nb:]))
                tvals = gfi.trace_vals(P, tr)
                r = P.ref(args, tvals)
                return (w, tr.get_score()), (sum((jnp.sum(r.terms[i]) for i in sub), jnp.float32(0.0)), r.score)

            obs.append(Ob(f"C03/closure[{nb}]-importance{list(sub)}/{nm}", fc, (gfi.KEY, P.args, P.example_vals()), assume=lambda k, a, v, A=A: A(a, v),
                          note="importance through gen_fn(*bound)(...) with further positional arguments: weight and score are those of the program on bound + extra arguments"))
    return obs
