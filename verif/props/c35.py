"""C35: masked constraint values act as conditional constraints."""
import jax
import jax.numpy as jnp
from genjax import ChoiceMapBuilder as C
from genjax import Diff, Mask, Update

from verif import gfi, programs as PG
from verif.engine import Ob

LEVEL = "model_checking"
BOUNDS = {"programs": "normal, flip, inner2, innerF, static(vmap), vmap(inner1), scan(walk), switch(inner1,inner3), mask(inner1), dimap(inner1)", "masked sites": "each site in turn (other sites constrained or not: both)",
          "flags": "symbolic scalar flags; symbolic vector flags for sites under vmap/scan; concrete Python True/False", "forms": "value wrapped as Mask(v, flag) and ChoiceMap.mask(flag)"}
ASSUMPTIONS = ["the flag-True reference run and the flag-False (address unconstrained) reference run use the same key as the masked run"]
OUTSIDE = ["masked constraints on addresses absent from the program"]


def tv(P, tr):
    return (tr.get_score(), PG.norm_ret(P, tr.get_retval()), gfi.chm_view(P, tr.get_choices()))


def sel(flag, a, b):
    return jax.tree_util.tree_map(lambda x, y: jnp.where(flag, x, y), a, b)


def masked_chm(P, vals, i, flag, others, form):
    """constraint: site i masked by flag (scalar), the sites in `others` plain."""
    base = P.chm(vals, subset=others)
    s = P.sites[i]
    if form == "Mask":
        v = Mask(vals[i], jnp.broadcast_to(flag, s.batch) if s.batch else flag)
        return PG.site_chm(s, v) | base
    return PG.site_chm(s, vals[i]).mask(flag) | base


def obligations(tier, seed):
    cat = PG.catalogue()
    names = ["normal", "flip", "inner2", "innerF", "static(vmap)", "vmap(inner1)", "scan(walk)", "switch(inner1,inner3)", "mask(inner1)", "dimap(inner1)"]
    obs = []
    for nm in names:
        P = cat[nm]()
        A = gfi.base_assume(P, in_range=False)
        n = len(P.sites)
        ex, ex2 = P.example_vals(), gfi.perturb_vals(P)
        for i in range(n):
            rest = tuple(j for j in range(n) if j != i)
            for others, on in ((rest, "others-constrained"), ((), "others-free")):
                if n == 1 and others == ():
                    on = "single"
                elif n == 1:
                    continue
                for form in ("Mask", "chm.mask"):
                    def imp(key, args, vals, flag, P=P, i=i, others=others, form=form):
                        tm = P.gf.importance(key, masked_chm(P, vals, i, flag, others, form), args)
                        tt = P.gf.importance(key, P.chm(vals, subset=tuple(sorted(others + (i,)))), args)
                        tf = P.gf.importance(key, P.chm(vals, subset=others), args)
                        return (tv(P, tm[0]), tm[1]), sel(flag, (tv(P, tt[0]), tt[1]), (tv(P, tf[0]), tf[1]))

                    obs.append(Ob(f"C35/importance/site{i}/{on}/{form}/{nm}", imp, (gfi.KEY, P.args, ex, jnp.array(True)), assume=lambda k, a, v, f, A=A: A(a, v),
                                  note="importance with a masked constraint == ite(flag, constrained run, unconstrained run) on trace and weight"))
                if "update" in P.supports:
                    def upd(key, args, vals, vals2, flag, P=P, i=i, others=others):
                        tr, _ = P.gf.importance(key, P.chm(vals), args)
                        ad = Diff.no_change(args)
                        rm = Update(masked_chm(P, vals2, i, flag, others, "Mask")).edit(key, tr, ad)
                        rt = Update(P.chm(vals2, subset=tuple(sorted(others + (i,))))).edit(key, tr, ad)
                        rf = Update(P.chm(vals2, subset=others)).edit(key, tr, ad)
                        pack = lambda r: (tv(P, r[0]), r[1], gfi.chm_view(P, r[3].constraint))  # noqa: E731
                        return pack(rm), sel(flag, pack(rt), pack(rf))

                    obs.append(Ob(f"C35/update/site{i}/{on}/{nm}", upd, (gfi.KEY, P.args, ex, ex2, jnp.array(True)), assume=lambda k, a, v, v2, f, A=A: A(a, v) + A(a, v2),
                                  note="update with a masked constraint == ite(flag, ...) on trace, weight and backward constraint"))
        # concrete Python flags
        for cf in (True, False):
            def conc(key, args, vals, P=P, cf=cf):
                c = PG.site_chm(P.sites[0], Mask(vals[0], cf)) if cf else PG.site_chm(P.sites[0], vals[0]).mask(cf)
                tm = P.gf.importance(key, c, args)
                tt = P.gf.importance(key, P.chm(vals, subset=(0,) if cf else ()), args)
                return (tv(P, tm[0]), tm[1]), (tv(P, tt[0]), tt[1])

            obs.append(Ob(f"C35/importance/concrete-{cf}/{nm}", conc, (gfi.KEY, P.args, ex), assume=lambda k, a, v, A=A: A(a, v)))

    # vectorised flags under vmap / scan: elementwise
    for nm in ["vmap(inner1)", "scan(walk)", "static(vmap)"]:
        P = cat[nm]()
        A = gfi.base_assume(P, in_range=False)
        i = [j for j, s in enumerate(P.sites) if s.batch][0]
        s = P.sites[i]
        nlen = s.batch[0]

        def vec(key, args, vals, flags, P=P, i=i, s=s, nlen=nlen, nm=nm):
            c = PG.site_chm(s, Mask(vals[i], flags))
            tm = P.gf.importance(key, c, args)
            tf = P.gf.importance(key, C.n(), args)
            got = gfi.chm_view(P, tm[0].get_choices())[i][0]
            base = gfi.chm_view(P, tf[0].get_choices())[i][0]
            tvals = gfi.trace_vals(P, tm[0])
            r = P.ref(args, tvals)
            expect_w = jnp.sum(jnp.where(flags, r.terms[i], 0.0))
            lhs = [tm[1], tm[0].get_score()]
            rhs = [expect_w, r.score]
            if P.kind == "vmap" or nm == "static(vmap)":
                # independent elements: a False flag leaves the element as in the unconstrained run with the same key
                lhs.append(got); rhs.append(jnp.where(flags, vals[i], base))
            else:
                lhs.append(jnp.where(flags, got, 0.0)); rhs.append(jnp.where(flags, vals[i], 0.0))
            return lhs, rhs

        obs.append(Ob(f"C35/importance/vector-flags/{nm}", vec, (gfi.KEY, P.args, P.example_vals(), jnp.array([True, False, True][:nlen])), assume=lambda k, a, v, f, A=A: A(a, v),
                      note="vector of flags: element j is constrained iff flags[j]; weight sums exactly the flagged elements' log-densities"))
    return obs
