"""C08: change tags are sound - NoChange really means unchanged."""
import jax
import jax.numpy as jnp
from genjax import Diff, Mask, Regenerate, Update
from genjax import Selection as S

from verif import gfi, programs as PG
from verif.engine import Ob
from verif.props.c05 import has_switch

LEVEL = "model_checking"
BOUNDS = {"programs": "catalogue", "edits": "Update(S) for S in empty/full/singletons, Regenerate(all|none|site) where accepted, EmptyRequest; argument taggings: all NoChange, all UnknownChange with equal values, all UnknownChange with changed values",
          "exemption": "a switch index tagged UnknownChange is a documented resampling trigger: for programs with a top-level switch index the index stays NoChange in the 'honest retagging' comparison"}
ASSUMPTIONS = ["(a) every retdiff leaf tagged NoChange is compared with the previous return value; (b) the same edit under NoChange vs UnknownChange tagging of unchanged arguments is compared on new trace, weight and backward constraint"]
OUTSIDE = ["retdiffs of mask combinators (the tag is carried inside a Mask flag)", "IndexRequest (asserts NoChange arguments)"]


def nochange_pairs(rd, old):
    """[(primal, old)] for every retdiff leaf tagged NoChange."""
    out = []

    def visit(d, o):
        if isinstance(d, Diff):
            if Diff.static_check_no_change(d):
                out.append((Diff.tree_primal(d), o))
            return None
        return None

    try:
        jax.tree_util.tree_map(visit, rd, old, is_leaf=lambda v: isinstance(v, Diff))
    except ValueError:
        pass
    return out


def retag(P, args, unknown):
    """argdiffs with every argument tagged `unknown`, except a top-level switch/or_else/mix selector."""
    if not unknown:
        return Diff.no_change(args)
    if P.kind in ("switch", "or_else"):
        return (Diff.no_change(args[0]),) + tuple(Diff.unknown_change(a) for a in args[1:])
    return Diff.unknown_change(args)


def obligations(tier, seed):
    cat, names = gfi.prog_names(tier)
    obs = []
    for nm in names:
        P = cat[nm]()
        if "update" not in P.supports:
            continue
        A = gfi.base_assume(P, in_range=False)
        n = len(P.sites)
        ex, ex2 = P.example_vals(), gfi.perturb_vals(P)
        args2 = jax.tree_util.tree_map(lambda x: x + 0.25 if jnp.issubdtype(x.dtype, jnp.floating) else x, P.args)
        reqs = [(f"update{list(sub)}", lambda v2, sub=sub, P=P: Update(P.chm(v2, subset=sub))) for sub in list(dict.fromkeys([(), tuple(range(n))] + [(i,) for i in range(min(n, 3))]))]
        if "regenerate" in P.supports:
            reqs += [("regenerate[all]", lambda v2: Regenerate(S.all())), ("regenerate[none]", lambda v2: Regenerate(S.none()))]
            reqs += [(f"regenerate[{s.static_addr}]", lambda v2, s=s: Regenerate(S.at[s.static_addr])) for s in P.sites[:2] if s.static_addr]
        for rn, mk in reqs:
            for mode in ("N", "U=", "U!"):
                def fa(key, args, vals, vals2, args2, P=P, mk=mk, mode=mode):
                    tr, _ = P.gf.importance(key, P.chm(vals), args)
                    ad = {"N": Diff.no_change(args), "U=": Diff.unknown_change(args), "U!": Diff.unknown_change(args2)}[mode]
                    tr2, w, rd, bwd = mk(vals2).edit(key, tr, ad)
                    pairs = nochange_pairs(rd, tr.get_retval())
                    return [p for p, _ in pairs] + [jnp.int32(0)], [o for _, o in pairs] + [jnp.int32(0)]

                if "mask" in nm or nm in ("composed",):
                    continue
                obs.append(Ob(f"C08/nochange-retdiff/{rn}/{mode}/{nm}", fa, (gfi.KEY, P.args, ex, ex2, args2), assume=lambda k, a, v, v2, a2, A=A: A(a, v) + A(a2, v2),
                              note="every retdiff leaf tagged NoChange carries the previous return value (args tagged N / U with equal values / U with changed values)"))
            if has_switch(P) and P.kind not in ("switch", "or_else"):
                continue  # nested selector index: tagging it UnknownChange resamples (documented exemption)
            if P.kind == "mix":
                continue

            def fb(key, args, vals, vals2, P=P, mk=mk):
                tr, _ = P.gf.importance(key, P.chm(vals), args)
                r1 = mk(vals2).edit(key, tr, retag(P, args, False))
                r2 = mk(vals2).edit(key, tr, retag(P, args, True))
                pack = lambda r: (r[0].get_score(), PG.norm_ret(P, r[0].get_retval()), gfi.chm_view(P, r[0].get_choices()), r[1],  # noqa: E731
                                  gfi.chm_view(P, r[3].constraint) if isinstance(r[3], Update) else jnp.int32(0))
                return pack(r1), pack(r2)

            obs.append(Ob(f"C08/honest-retagging/{rn}/{nm}", fb, (gfi.KEY, P.args, ex, ex2), assume=lambda k, a, v, v2, A=A: A(a, v) + A(a, v2),
                          note="same edit with unchanged arguments tagged NoChange vs UnknownChange: identical new trace, weight and backward constraint"))
    return obs
