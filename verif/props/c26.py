"""C26: Importance and SMC return properly weighted particles and unbiased evidence."""
import jax
import jax.numpy as jnp
import genjax
from genjax import ChoiceMapBuilder as C
from genjax import Selection as S
from genjax import Target
from genjax._src.inference.smc import ChangeTarget, Importance, ImportanceK
from jax.scipy.special import logsumexp
from tensorflow_probability.substrates import jax as tfp

from verif.engine import Ob

tfd = tfp.distributions

LEVEL = "model_checking"
BOUNDS = {
    "targets": "conjugate Gaussian (mu~N(0,3), v~N(mu,s) observed, s symbolic); two-latent Gaussian chain; flip-flip (x~flip(.3), y~flip(x?.9:.2) observed, both observation values)",
    "algorithms": "Importance and ImportanceK (K = 2, 3) without proposal and with a Marginal gen-fn proposal q(mu; a, b) (symbolic a, b>0), Importance with an auxiliary-variable proposal (Marginal over a strict-subset selection); ChangeTarget; random_weighted / estimate_logpdf / estimate_normalizing_constant",
    "symbolic": "observations, model and proposal parameters, every sampled value (draw atoms of the key)",
}
ASSUMPTIONS = [
    "proper weighting is checked as the algebraic identity log_weight_i = log p(particle_i, obs) - log q(particle_i) with q the product of the conditional densities of the choices the algorithm sampled (prior conditionals for the internal proposal); that this implies E[exp(lml estimate)] = Z is the standard importance-sampling lemma (trusted)",
    "particles of ImportanceK use pairwise distinct PRNG keys (decided on the Key datatype), i.e. independent draws under the PRNG contract",
]
OUTSIDE = ["'consistent with the exact posterior' as a limit statement", "K > 3, resampling SMC steps (not in the library)"]

KEY = jax.random.key(0)
F = lambda v: jnp.asarray(v, jnp.float32)  # noqa: E731


def lpn(v, mu, s):
    return tfd.Normal(mu, s).log_prob(v)


def lpf(v, p):
    return tfd.Bernoulli(probs=p, dtype=jnp.bool_).log_prob(v)


@genjax.gen
def gauss(s):
    mu = genjax.normal(0.0, 3.0) @ "mu"
    _ = genjax.normal(mu, s) @ "v"


def lj_gauss(mu, o, s):
    return lpn(mu, 0.0, 3.0) + lpn(o, mu, s)


@genjax.gen
def chain2(s):
    x = genjax.normal(0.0, 2.0) @ "x"
    z = genjax.normal(x, 1.0) @ "z"
    _ = genjax.normal(x + z, s) @ "v"


@genjax.gen
def flipflip():
    x = genjax.flip(0.3) @ "x"
    _ = genjax.flip(jnp.where(x, 0.9, 0.2)) @ "y"


def make_q(a, b):
    """proposal as a SampleDistribution: a Marginal over a gen fn of the target; its parameters are closed over"""

    @genjax.marginal()
    @genjax.gen
    def q(target):
        _ = genjax.normal(a, b) @ "mu"

    return q


def obligations(tier, seed):
    obs = []
    pos = lambda *idx: (lambda *a: [a[i][()] > 0 for i in idx])  # noqa: E731
    Ks = (2,) if tier == "quick" else (2, 3)

    # ---- 1. Importance without a proposal: the latent comes from the prior, the weight is the likelihood of the observation
    def imp(key, s, o):
        t = Target(gauss, (s,), C["v"].set(o))
        pc = Importance(t).run_smc(key)
        tr = pc.get_particles()
        mu, v = tr.get_choices()["mu"][0], tr.get_choices()["v"][0]
        return (v, pc.get_log_weights()[0], pc.get_log_marginal_likelihood_estimate(), jnp.reshape(tr.get_score(), ())), (o, lpn(o, mu, s), lpn(o, mu, s), lj_gauss(mu, o, s))

    obs.append(Ob("C26/importance/gauss", imp, (KEY, F(0.5), F(1.3)), assume=pos(1), timeout_s=30,
                  note="particle satisfies the constraint; log weight == log p(mu,obs) - log p(mu) == log p(obs|mu); lml estimate == the weight (N=1)"))

    def impc(key, s, o):
        t = Target(chain2, (s,), C["v"].set(o))
        pc = Importance(t).run_smc(key)
        ch = pc.get_particles().get_choices()
        x, z, v = ch["x"][0], ch["z"][0], ch["v"][0]
        return (v, pc.get_log_weights()[0]), (o, lpn(o, x + z, s))

    obs.append(Ob("C26/importance/chain2", impc, (KEY, F(0.5), F(1.3)), assume=pos(1), timeout_s=30, note="two latents from the prior: weight == log p(obs | x, z)"))

    for yv in (True, False):
        def impf(key, yv=yv):
            t = Target(flipflip, (), C["y"].set(jnp.array(yv)))
            pc = Importance(t).run_smc(key)
            ch = pc.get_particles().get_choices()
            x, y = ch["x"][0], ch["y"][0]
            return (y, pc.get_log_weights()[0]), (jnp.array(yv), lpf(jnp.array(yv), jnp.where(x, 0.9, 0.2)))

        obs.append(Ob(f"C26/importance/flipflip[y={yv}]", impf, (KEY,), timeout_s=30, note="discrete target: weight == log p(y | sampled x)"))

    # ---- 2. Importance with a custom proposal: weight == log p(particle, obs) - log q(particle)
    def impq(key, s, o, a, b):
        t = Target(gauss, (s,), C["v"].set(o))
        pc = Importance(t, make_q(a, b)).run_smc(key)
        ch = pc.get_particles().get_choices()
        mu, v = ch["mu"][0], ch["v"][0]
        w = lj_gauss(mu, o, s) - lpn(mu, a, b)
        return (v, pc.get_log_weights()[0], pc.get_log_marginal_likelihood_estimate()), (o, w, w)

    obs.append(Ob("C26/importance+proposal/gauss", impq, (KEY, F(0.5), F(1.3), F(0.2), F(0.8)), assume=pos(1, 4), timeout_s=30,
                  note="proposal q(mu; a, b): weight == log p(mu,obs) - log q(mu)"))

    # proposal with an auxiliary choice UPSTREAM of the proposed one (Marginal over a strict-subset selection): the weight must use the
    # density of mu given the auxiliary value that actually produced it (the proposal's internal simulate trace is recorded by a harness wrapper)
    def impaux(key, s, o, a):
        @genjax.marginal(selection=S.at["mu"])
        @genjax.gen
        def q(target):
            aux = genjax.normal(a, 1.0) @ "aux"
            _ = genjax.normal(aux, 0.5) @ "mu"

        cls = type(q.gen_fn)
        rec, orig = [], cls.simulate

        def simulate(self, key_, args_):
            tr = orig(self, key_, args_)
            if self is q.gen_fn:
                rec.append(tr)
            return tr

        t = Target(gauss, (s,), C["v"].set(o))
        cls.simulate = simulate
        try:
            pc = Importance(t, q).run_smc(key)
        finally:
            cls.simulate = orig
        assert len(rec) == 1, len(rec)
        aux = rec[0].get_choices()["aux"]
        ch = pc.get_particles().get_choices()
        mu, v = ch["mu"][0], ch["v"][0]
        w = lj_gauss(mu, o, s) - lpn(mu, aux, 0.5)
        return (v, pc.get_log_weights()[0], mu), (o, w, rec[0].get_choices()["mu"])

    obs.append(Ob("C26/importance+aux-proposal/gauss", impaux, (KEY, F(0.5), F(1.3), F(0.2)), assume=pos(1), timeout_s=30,
                  note="proposal q(aux) q(mu | aux) marginalised to mu: weight == log p(mu,obs) - log q(mu | the aux that produced mu) (properly weighted with auxiliary variables)"))

    # ---- 3. ImportanceK: every particle properly weighted, evidence == logsumexp - log K, particles use distinct keys
    for K in Ks:
        for withq in (False, True):
            def impk(key, s, o, a, b, K=K, withq=withq):
                t = Target(gauss, (s,), C["v"].set(o))
                alg = ImportanceK(t, make_q(a, b) if withq else None, K)
                pc = alg.run_smc(key)
                ch = pc.get_particles().get_choices()
                mu, v = ch["mu"], ch["v"]
                w = jnp.stack([lj_gauss(mu[i], o, s) - (lpn(mu[i], a, b) if withq else lpn(mu[i], 0.0, 3.0)) for i in range(K)])
                return (v, pc.get_log_weights(), pc.get_log_marginal_likelihood_estimate(), alg.get_num_particles()), (jnp.broadcast_to(o, (K,)), w, logsumexp(w) - jnp.log(float(K)), K)

            def distinct(interp, sym_args, outs, out_shape, K=K):
                import z3

                from verif import engine

                diffs, err = engine.build_diffs(Ob("x", None, ()), interp, out_shape, outs)
                assert err is None, err
                normals = [d for d in interp.draws if d.kind == "normal"]
                assert len(normals) >= K, len(normals)
                for i in range(len(normals)):
                    for j in range(i + 1, len(normals)):
                        diffs.append((f"draw keys {i},{j} coincide", normals[i].key == normals[j].key))
                return diffs

            obs.append(Ob(f"C26/importanceK[K={K}{',proposal' if withq else ''}]/gauss", impk, (KEY, F(0.5), F(1.3), F(0.2), F(0.8)), assume=pos(1, 4), custom=distinct, timeout_s=60,
                          note="each particle: constraint satisfied, weight == log p(mu_i,obs) - log q(mu_i); lml == logsumexp(w) - log K; particle draws use pairwise distinct keys"))

    # ---- 4. ChangeTarget reweights by the ratio of new to old target densities
    def chg(key, s, o1, o2, s2):
        t1 = Target(gauss, (s,), C["v"].set(o1))
        t2 = Target(gauss, (s2,), C["v"].set(o2))
        pc1 = Importance(t1).run_smc(key)
        pc2 = ChangeTarget(Importance(t1), t2).run_smc(key)
        mu1 = pc1.get_particles().get_choices()["mu"][0]
        ch2 = pc2.get_particles().get_choices()
        return (ch2["mu"][0], ch2["v"][0], pc2.get_log_weights()[0]), (mu1, o2, pc1.get_log_weights()[0] + lj_gauss(mu1, o2, s2) - lj_gauss(mu1, o1, s))

    obs.append(Ob("C26/change-target/gauss", chg, (KEY, F(0.5), F(1.3), F(-0.4), F(0.9)), assume=pos(1, 4), timeout_s=30,
                  note="same key: ChangeTarget keeps the particle's latent, installs the new observation, weight == old weight + log p_new(mu,obs') - log p_old(mu,obs)"))

    # the new target drops one of the old target's observations: that address becomes a latent again (re-proposed from the
    # prior by the new target's importance), the kept latent is carried over, and the weight is proper for the NEW target
    @genjax.gen
    def three(s):
        x = genjax.normal(0.0, 2.0) @ "x"
        _ = genjax.normal(x, s) @ "y"
        _ = genjax.normal(x, 1.0) @ "z"

    def chg_drop(key, s, oy, oz):
        t1 = Target(three, (s,), C["y"].set(oy) | C["z"].set(oz))
        t2 = Target(three, (s,), C["y"].set(oy))
        pc1 = Importance(t1).run_smc(key)
        pc2 = ChangeTarget(Importance(t1), t2).run_smc(key)
        x1 = pc1.get_particles().get_choices()["x"][0]
        ch2 = pc2.get_particles().get_choices()
        return (ch2["x"][0], ch2["y"][0], pc2.get_log_weights()[0], pc1.get_log_weights()[0]), (x1, oy, lpn(oy, x1, s), lpn(oy, x1, s) + lpn(oz, x1, 1.0))

    obs.append(Ob("C26/change-target-drops-observation/three", chg_drop, (KEY, F(0.5), F(1.3), F(-0.4)), assume=pos(1), timeout_s=30,
                  note="new target constrains fewer addresses: the carried latent is kept, the dropped observation is no longer part of the weight: log weight == log p(y | x) for the new target (old weight was log p(y,z | x))"))

    # ---- 5. the SP interface of an SMC algorithm
    def rw(key, s, o, a, b):
        t = Target(gauss, (s,), C["v"].set(o))
        alg = Importance(t, make_q(a, b))
        est, chm = alg.random_weighted(key, t)
        mu = chm["mu"]
        return (est, jnp.int32("v" in chm)), (lpn(mu, a, b), jnp.int32(0))

    obs.append(Ob("C26/random_weighted/importance+proposal", rw, (KEY, F(0.5), F(1.3), F(0.2), F(0.8)), assume=pos(1, 4), timeout_s=30,
                  note="one particle: returns only the unconstrained choice; density estimate == log p(mu,obs) - lml == log q(mu)"))

    def elp(key, s, o, a, b, mu):
        t = Target(gauss, (s,), C["v"].set(o))
        alg = Importance(t, make_q(a, b))
        return (alg.estimate_logpdf(key, C["mu"].set(mu), t), alg.estimate_normalizing_constant(key, t) * 0.0), (lpn(mu, a, b), F(0.0))

    obs.append(Ob("C26/estimate_logpdf/importance+proposal", elp, (KEY, F(0.5), F(1.3), F(0.2), F(0.8), F(0.1)), assume=pos(1, 4), timeout_s=30,
                  note="conditional SMC with one particle retains the given choices: estimate == log q(mu)"))

    def elp0(key, s, o, mu):
        t = Target(gauss, (s,), C["v"].set(o))
        return (Importance(t).estimate_logpdf(key, C["mu"].set(mu), t),), (lpn(mu, 0.0, 3.0),)

    obs.append(Ob("C26/csmc-retained-weight[K=1]/estimate_logpdf-no-proposal", elp0, (KEY, F(0.5), F(1.3), F(0.1)), assume=pos(1), timeout_s=30,
                  note="one particle, internal (prior) proposal: the density estimate of a given mu must be the density random_weighted reports for it, log p(mu)"))

    def enc(key, s, o, a, b):
        t = Target(gauss, (s,), C["v"].set(o))
        alg = Importance(t, make_q(a, b))
        pc = alg.run_smc(jax.random.split(key)[1])
        return (alg.estimate_normalizing_constant(key, t), alg.log_marginal_likelihood_estimate(key)), (pc.get_log_weights()[0],) * 2

    obs.append(Ob("C26/normalizing-constant/importance+proposal", enc, (KEY, F(0.5), F(1.3), F(0.2), F(0.8)), assume=pos(1, 4), timeout_s=30,
                  note="estimate_normalizing_constant / log_marginal_likelihood_estimate == the lml estimate of the SMC run they perform"))

    # conditional SMC with K particles retains the given choices as one of the particles
    for K in Ks:
        def csmc(key, s, o, mu, K=K):
            t = Target(gauss, (s,), C["v"].set(o))
            pc = ImportanceK(t, None, K).run_csmc(key, C["mu"].set(mu))
            ch = pc.get_particles().get_choices()
            w = pc.get_log_weights()
            return (ch["mu"][K - 1], ch["v"], w[: K - 1]), (mu, jnp.broadcast_to(o, (K,)), jnp.stack([lpn(o, ch["mu"][i], s) for i in range(K - 1)]))

        obs.append(Ob(f"C26/csmc-retains[K={K}]/gauss", csmc, (KEY, F(0.5), F(1.3), F(0.1)), assume=pos(1), timeout_s=30,
                      note="run_csmc keeps the retained choices as the last particle; the freshly proposed particles are properly weighted"))

        def csmc_w(key, s, o, mu, K=K):
            t = Target(gauss, (s,), C["v"].set(o))
            pc = ImportanceK(t, None, K).run_csmc(key, C["mu"].set(mu))
            return (pc.get_log_weights()[K - 1],), (lpn(o, mu, s),)

        obs.append(Ob(f"C26/csmc-retained-weight[K={K}]/gauss", csmc_w, (KEY, F(0.5), F(1.3), F(0.1)), assume=pos(1), timeout_s=30,
                      note="the retained particle is weighted like the others: log p(mu,obs) - log q(mu) with q the internal (prior) proposal"))
    return obs
