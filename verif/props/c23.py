"""C23: GFI results are invariant under jax.jit and consistent under jax.vmap."""
import itertools

import jax
import jax.numpy as jnp
import numpy as np
from genjax import Diff, Regenerate, Update
from genjax import Selection as S

from verif import gfi, programs as PG
from verif.engine import Ob

LEVEL = "translation_validation"
BOUNDS = {
    "eager vs jit": "what distinguishes an eager run from a jitted one is which arguments are concrete while GenJAX's Python runs: every discrete argument (switch index, mask / or_else flag) of each catalogue program is tried as a concrete Python/NumPy value (indices -1..n, both flags) against the fully traced run; float arguments are traced on both sides",
    "masked constraints": "update with a constraint masked by a Python bool vs a traced flag (both values, with and without changed arguments, followed by a second update)",
    "vmap": "jax.vmap over (key, args, constraint values) with batch size 2 vs the two unbatched calls",
    "operations": "simulate, assess, importance (empty / partial / full constraint), update (with changed args), project, regenerate",
}
ASSUMPTIONS = ["jax.jit adds only a pjit wrapper around the same trace (jit invariance reduces to concrete-vs-traced agreement plus 'tracing raises nothing', which every other check exercises by tracing all inputs)",
               "batched PRNG keys: element i of the batched run uses key i"]
OUTSIDE = ["vector-valued discrete arguments (vmap over switch indices) as concrete values", "batch sizes > 2"]

KEY = gfi.KEY


def ops_for(P):
    ex = P.example_vals()
    n = len(P.sites)
    ops = {}
    ops["simulate"] = lambda key, args, vals: gfi.full_view(P, P.gf.simulate(key, args))[0]
    ops["assess"] = lambda key, args, vals: list(P.gf.assess(P.chm(vals), args))[:1] + [PG.norm_ret(P, P.gf.assess(P.chm(vals), args)[1])]

    def imp(sub):
        def f(key, args, vals):
            tr, w = P.gf.importance(key, P.chm(vals, subset=sub), args)
            return gfi.full_view(P, tr)[0] + [w] + [g[0] for g in gfi.chm_view(P, tr.get_choices())]

        return f

    ops["importance[]"] = imp(())
    ops["importance[all]"] = imp(tuple(range(n)))
    if n > 1:
        ops["importance[0]"] = imp((0,))
    if "update" in P.supports:
        def upd(key, args, vals):
            tr, _ = P.gf.importance(key, P.chm(vals), args)
            args2 = jax.tree_util.tree_map(lambda x: x + 0.25 if jnp.issubdtype(jnp.asarray(x).dtype, jnp.floating) else x, args)
            vals2 = [v + 0.5 if jnp.issubdtype(v.dtype, jnp.floating) else v for v in vals]
            tr2, w, rd, bwd = Update(P.chm(vals2, subset=(0,))).edit(key, tr, Diff.unknown_change(args2))
            return gfi.full_view(P, tr2)[0] + [w] + [g for g in gfi.chm_view(P, bwd.constraint)]

        ops["update[0]+args"] = upd
    if "project" in P.supports:
        def proj(key, args, vals):
            tr, _ = P.gf.importance(key, P.chm(vals), args)
            return [P.gf.project(key, tr, S.all()), P.gf.project(key, tr, S.none())]

        ops["project"] = proj
    if "regenerate" in P.supports:
        def reg(key, args, vals):
            tr, _ = P.gf.importance(key, P.chm(vals), args)
            tr2, w, rd, bwd = Regenerate(S.all()).edit(key, tr, Diff.no_change(args))
            return gfi.full_view(P, tr2)[0] + [w]

        ops["regenerate[all]"] = reg
    del ex
    return ops


def discrete_leaves(P):
    leaves, treedef = jax.tree_util.tree_flatten(P.args)
    idx = [i for i, l in enumerate(leaves) if jnp.asarray(l).dtype in (jnp.bool_, jnp.int32) and jnp.ndim(l) == 0]
    return leaves, treedef, idx


def obligations(tier, seed):
    cat = PG.catalogue()
    obs = []
    # ---- (A) concrete vs traced discrete arguments
    names = ["switch(inner1,inner2)", "switch(inner1,inner2s)", "switch3", "mask(inner1)", "or_else(inner1,inner2s)", "static(switch)", "static(mask)", "composed"]
    if tier == "thorough":
        names += [n for n in cat if n not in names and cat[n]().kind in ("switch", "mask", "or_else")]
    for nm in names:
        if nm not in cat:
            continue
        P = cat[nm]()
        leaves, treedef, didx = discrete_leaves(P)
        if not didx:
            continue
        nb = len(P.meta.get("branches", [])) or 2
        doms = []
        for i in didx:
            doms.append([False, True] if jnp.asarray(leaves[i]).dtype == jnp.bool_ else list(range(-1, nb + 1)))
        A = gfi.base_assume(P, in_range=False)
        for opn, op in ops_for(P).items():
            if tier == "quick" and opn in ("importance[0]", "project") and nm not in ("switch(inner1,inner2s)", "mask(inner1)"):
                continue
            if opn == "project" and ("mask" in nm or nm == "composed"):
                continue  # Mask has no project (NotImplementedError by design; C10 excludes it too)
            for combo in itertools.product(*doms):
                for flavour in ("py",):  # NumPy scalars are not accepted flag/index types (the API wants bool / int / jax arrays)
                    def f(key, args, vals, op=op, combo=combo, treedef=treedef, didx=didx, flavour=flavour):
                        lv = jax.tree_util.tree_leaves(args)
                        conc = list(lv)
                        for i, c in zip(didx, combo):
                            conc[i] = c if flavour == "py" else (np.bool_(c) if isinstance(c, bool) else np.int32(c))
                        return op(key, args, vals), op(key, jax.tree_util.tree_unflatten(treedef, conc), vals)

                    def assume(k, a, v, combo=combo, didx=didx, A=A):
                        la = jax.tree_util.tree_leaves(a)
                        out = A(a, v)
                        for i, c in zip(didx, combo):
                            e = la[i][()]
                            out.append(e == c if not isinstance(c, bool) else (e if c else __import__("z3").Not(e)))
                        return out

                    obs.append(Ob(f"C23/concrete={list(combo)}{'' if flavour == 'py' else ',numpy'}/{opn}/{nm}", f, (KEY, P.args, P.example_vals()), assume=assume, timeout_s=30,
                                  note="the operation with the discrete arguments given as concrete values (what an eager call sees) == the fully traced operation (what jit sees) at those values, all other inputs symbolic"))
    # ---- (A') a constraint masked by a flag: the eager caller holds a Python bool (mask(False) is the empty map, mask(True) the map itself),
    # the jitted caller a traced flag (the constraint stays a Mask and goes through the distribution's masked path)
    import z3

    for nm in ["normal", "inner2", "vmap(inner1)", "scan(walk)"] + (["switch(inner1,inner2s)", "static(vmap)"] if tier == "thorough" else []):
        if nm not in cat:
            continue
        P = cat[nm]()
        A = gfi.base_assume(P, in_range=False)
        for c in (False, True):
            for chg in (False, True):
                def fm(key, args, vals, flag, P=P, c=c, chg=chg):
                    def op(fl):
                        tr, _ = P.gf.importance(key, P.chm(vals), args)
                        args2 = jax.tree_util.tree_map(lambda x: x + 0.25 if jnp.issubdtype(jnp.asarray(x).dtype, jnp.floating) else x, args) if chg else args
                        vals2 = [v + 0.5 if jnp.issubdtype(v.dtype, jnp.floating) else v for v in vals]
                        tr2, w, rd, bwd = Update(P.chm(vals2, subset=(0,)).mask(fl)).edit(key, tr, Diff.unknown_change(args2) if chg else Diff.no_change(args))
                        u3, w3, _, _ = tr2.update(key, P.chm(vals, subset=(0,)))  # a following update sees the first one's cached scores
                        return gfi.full_view(P, tr2)[0] + [w, w3, u3.get_score()]

                    return op(flag), op(c)

                obs.append(Ob(f"C23/masked-constraint-flag={c}{'+args' if chg else ''}/update/{nm}", fm, (KEY, P.args, P.example_vals(), jnp.array(True)),
                              assume=lambda k, a, v, f, A=A, c=c: A(a, v) + [f[()] if c else z3.Not(f[()])], timeout_s=60,
                              note="update with a constraint masked by a Python bool (eager) == the same with a traced flag of that value (jit), incl. a following update"))
    # ---- (B) jax.vmap over key, args and constraint values: slice i == unbatched call on slice i
    bnames = ["normal", "inner2", "vmap(inner1)", "scan(walk)", "switch(inner1,inner2s)", "mask(inner1)", "dimap(inner1)"]
    if tier == "thorough":
        bnames += ["flip", "categorical", "repeat(inner1)", "scan(kern2)", "mix(inner1,inner2)", "composed", "static(vmap)", "static(scan)"]
    for nm in bnames:
        if nm not in cat:
            continue
        P = cat[nm]()
        A = gfi.base_assume(P, in_range=False)
        stack2 = lambda t: jax.tree_util.tree_map(lambda x: jnp.stack([jnp.asarray(x), jnp.asarray(x) + 0.25 if jnp.issubdtype(jnp.asarray(x).dtype, jnp.floating) else jnp.asarray(x)]), t)  # noqa: E731
        bargs, bvals = stack2(P.args), stack2(P.example_vals())
        keys = jax.random.split(KEY, 2)
        for opn, op in ops_for(P).items():
            if tier == "quick" and opn in ("importance[0]", "project", "regenerate[all]"):
                continue
            if opn == "project" and ("mask" in nm or nm == "composed"):
                continue

            def f(keys, bargs, bvals, op=op):
                batched = jax.vmap(op)(keys, bargs, bvals)
                singles = [op(keys[i], jax.tree_util.tree_map(lambda x: x[i], bargs), jax.tree_util.tree_map(lambda x: x[i], bvals)) for i in range(2)]
                return batched, jax.tree_util.tree_map(lambda a, b: jnp.stack([a, b]), *singles)

            def assume(k, ba, bv, P=P, A=A):
                out = []
                for i in range(2):
                    out += A(jax.tree_util.tree_map(lambda x: PG._box(x[i]), ba), [PG._box(x[i]) for x in bv])
                return out

            obs.append(Ob(f"C23/vmap2/{opn}/{nm}", f, (keys, bargs, bvals), assume=assume, timeout_s=60,
                          note="jax.vmap of the operation over keys, arguments and constraint values: slice i of the batched result == the unbatched call on slice i"))
    return obs
