"""C09: incremental interpreter computes the same values with sound change tags."""
import itertools

import jax
import jax.numpy as jnp
from genjax import Diff, NoChange, UnknownChange
from genjax._src.core.compiler.interpreters.incremental import incremental

from verif.engine import Ob
from verif.jaxfuncs import FUNCS

LEVEL = "translation_validation"
BOUNDS = {"functions": "14 JAX functions: arithmetic, literal outputs, closed-over constants, static/dynamic indexing, dynamic update, select, cond, switch, scan (length 3), fori (3), bounded while (<=4, unwinding assertion), multi-output primitives, pytrees, unused inputs",
          "taggings": "all 2^n NoChange/UnknownChange taggings of the n<=3 inputs (per top-level argument), with the singleton tag objects and with tag objects rebuilt by a pytree round trip"}
ASSUMPTIONS = ["non-interference is decided by self-composition: two runs that agree on the NoChange-tagged inputs and are otherwise unrelated"]
OUTSIDE = ["custom propagation rules (none are registered in the tree)", "functions outside the grammar"]


def tag(args, tagging, fresh=False):
    tags = tuple(jax.tree_util.tree_map(lambda _: UnknownChange if t else NoChange, a) for a, t in zip(args, tagging))
    if fresh:
        # the tag classes are leafless pytrees: any flatten/unflatten (jax.vmap over argdiffs, tree_map, a jit boundary) rebuilds them as
        # fresh instances that are equal to, but not identical with, the module-level singletons
        tags = jax.tree_util.tree_map(lambda v: v, tags)
    return tags


def obligations(tier, seed):
    obs = []
    for nm, (f, args) in FUNCS.items():
        n = len(args)
        for tagging in itertools.product((False, True), repeat=n):
            ts = "".join("U" if t else "N" for t in tagging)

            def primal(*a, f=f, tagging=tagging):
                out = incremental(f)(None, a, tag(a, tagging))
                return Diff.tree_primal(out), f(*a)

            obs.append(Ob(f"C09/primal/{nm}/{ts}", primal, args, note="primal outputs of incremental(f) == f(x) for all x"))

            def nonint(a, b, f=f, tagging=tagging):
                b2 = tuple(y if t else x for x, y, t in zip(a, b, tagging))
                o1 = incremental(f)(None, a, tag(a, tagging))
                o2 = incremental(f)(None, b2, tag(b2, tagging))
                l1 = jax.tree_util.tree_leaves(o1, is_leaf=lambda v: isinstance(v, Diff))
                l2 = jax.tree_util.tree_leaves(o2, is_leaf=lambda v: isinstance(v, Diff))
                assert all(isinstance(v, Diff) for v in l1), "non-Diff output"
                keep1 = [v.primal for v in l1 if v.tangent == NoChange]
                keep2 = [v.primal for v in l2 if v.tangent == NoChange]
                # also: with every input NoChange, every output must be tagged NoChange-or-Unknown consistently across runs
                return keep1 + [jnp.int32(len(keep1))], keep2 + [jnp.int32(len(keep2))]

            obs.append(Ob(f"C09/noninterference/{nm}/{ts}", nonint, (args, args), note="outputs tagged NoChange are equal for any two inputs that agree on the NoChange-tagged arguments"))
            if any(tagging):
                def nonint_fresh(a, b, f=f, tagging=tagging):
                    b2 = tuple(y if t else x for x, y, t in zip(a, b, tagging))
                    o1 = incremental(f)(None, a, tag(a, tagging, fresh=True))
                    o2 = incremental(f)(None, b2, tag(b2, tagging, fresh=True))
                    l1 = jax.tree_util.tree_leaves(o1, is_leaf=lambda v: isinstance(v, Diff))
                    l2 = jax.tree_util.tree_leaves(o2, is_leaf=lambda v: isinstance(v, Diff))
                    keep1 = [v.primal for v in l1 if v.tangent == NoChange]
                    keep2 = [v.primal for v in l2 if v.tangent == NoChange]
                    return keep1 + [jnp.int32(len(keep1))], keep2 + [jnp.int32(len(keep2))]

                obs.append(Ob(f"C09/noninterference-roundtripped-tags/{nm}/{ts}", nonint_fresh, (args, args),
                              note="the same 2-safety query with change tags that went through a pytree round trip (fresh tag instances, as jax.vmap / tree_map produce them)"))
    return obs
