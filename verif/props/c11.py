"""C11: vmap and repeat behave as independent elementwise calls."""
import jax
import jax.numpy as jnp
from genjax import ChoiceMapBuilder as C

from verif import gfi, programs as PG
from verif.engine import Ob

LEVEL = "model_checking"
BOUNDS = {"inner programs": "inner1, inner2 (hierarchical addresses), innerS (two args), switch, mask, vmap (nested)", "lengths": "0,1,2,3", "in_axes": "0 | (0,None) | (None,0) | (1,) over a square 2x2 argument | nested tuple",
          "constraints": "full slices, arange index arrays, one symbolic scalar index (all integers in range), IndexRequest(i symbolic)"}
ASSUMPTIONS = ["oracle 1: the inner program's own GFI called per element in a Python loop (same real code, independent of Vmap); oracle 2: the reference denotation"]
OUTSIDE = ["lengths > 3", "partial slices (rejected by the API)"]


def _f(x):
    return jnp.asarray(x, jnp.float32)


def obligations(tier, seed):
    cat = PG.catalogue()
    obs = []
    names = ["vmap(inner1)", "vmap(inner2)", "vmap(innerS;0,None)", "vmap(innerV;axis1)", "repeat(inner1)", "static(vmap)"] + (["vmap(vmap)", "vmap(switch)", "vmap(mask)", "vmap(scan)"] if tier == "thorough" else ["vmap(mask)"])
    for nm in names:
        obs += gfi.family("C11", nm, cat[nm](), tier)
    extra = {
        "vmap1(inner1)": lambda: PG.Vmap(PG.inner1(), 1),
        "vmap(innerS;None,0)": lambda: PG.Vmap(PG.inner_sigma(), 2, in_axes=(None, 0), args=(_f(0.4), jnp.array([1.3, 0.7], jnp.float32))),
    }
    for nm, th in extra.items():
        obs += gfi.family("C11", nm, th(), tier, ops=("assess", "simulate", "importance", "update", "index"))

    # ---- per-element oracle: N independent calls of the inner program's own GFI
    for nm, inner, n in [("inner1", PG.inner1, 3), ("inner2", PG.inner2, 2), ("innerF", PG.inner_flip, 2)]:
        K = inner()
        P = PG.Vmap(K, n)

        def f(key, args, vals, K=K, P=P, n=n):
            tr, w = P.gf.importance(key, P.chm(vals), args)
            scs, rvs = [], []
            for i in range(n):
                sc, rv = K.gf.assess(K.chm([v[i] for v in vals]), tuple(a[i] for a in args))
                scs.append(sc)
                rvs.append(rv)
            return (tr.get_score(), w, tr.get_retval()), (sum(scs), sum(scs), jnp.stack(rvs))

        obs.append(Ob(f"C11/elementwise-oracle/vmap{n}({nm})", f, (gfi.KEY, P.args, P.example_vals()), assume=lambda k, a, v, P=P: P.assume(*a),
                      note="vmap importance(full) score/weight/retval == sum / stack of N separate inner.assess calls"))

    # ---- a constraint at a symbolic index i affects only element i
    K = PG.inner1()
    for n in (2, 3):
        P = PG.Vmap(K, n)

        def g(key, args, i, v, P=P, n=n):
            tr_c, w = P.gf.importance(key, C[i, "a"].set(v), args)
            tr_e, w0 = P.gf.importance(key, C.n(), args)
            got = tr_c.get_choices()["a"]
            base = tr_e.get_choices()["a"]
            sel = jnp.arange(n) == i
            expect = jnp.where(sel, v, base)
            lw = PG.lp("normal", v, args[0][jnp.clip(i, 0, n - 1)], 1.0)
            return (got, w, w0), (expect, jnp.where(jnp.any(sel), lw, 0.0), jnp.float32(0.0))

        obs.append(Ob(f"C11/symbolic-index-constraint/vmap{n}(inner1)", g, (gfi.KEY, P.args, jnp.int32(1), _f(0.9)),
                      assume=lambda k, a, i, v, n=n: [i[()] >= 0, i[()] < n],
                      note="importance(C[i,'a'].set(v)) with symbolic i: element i holds v, every other element equals the unconstrained run with the same key; weight = logpdf of element i only"))
        obs.append(Ob(f"C11/symbolic-index-constraint-any-int/vmap{n}(inner1)", g, (gfi.KEY, P.args, jnp.int32(1), _f(0.9)),
                      note="same with i ranging over all integers: an index outside [0,n) constrains nothing (weight 0)"))

    # ---- repeat(n) == vmap over n copies of the same arguments
    for n in (1, 3):
        R = PG.Repeat(K, n)
        V = K.gf.vmap(in_axes=(None,))

        def h(key, args, vals, R=R, V=V, n=n):
            a1 = R.gf.assess(R.chm(vals), args)
            a2 = V.assess(R.chm(vals), args)
            # vmap needs an axis size: compare against vmap over explicitly copied args
            return a1, a2

        def h2(key, args, vals, R=R, n=n):
            Vc = K.gf.vmap(in_axes=0)
            copied = tuple(jnp.stack([a] * n) for a in args)
            t1 = R.gf.simulate(key, args)
            a1 = R.gf.assess(R.chm(vals), args)
            a2 = Vc.assess(R.chm(vals), copied)
            w1 = R.gf.importance(key, R.chm(vals), args)[1]
            w2 = Vc.importance(key, R.chm(vals), copied)[1]
            return (a1, w1, t1.get_retval().shape[0]), (a2, w2, n)

        obs.append(Ob(f"C11/repeat{n}=vmap-over-copies/inner1", h2, (gfi.KEY, R.args, R.example_vals()), note="repeat(n): assess/importance equal vmap(in_axes=0) over n copies of the arguments"))

    # ---- zero-length maps are empty with score 0
    def z(key, xs):
        P0 = K.gf.vmap()
        tr = P0.simulate(key, (xs,))
        tr2, w = P0.importance(key, C.n(), (xs,))
        return (tr.get_score(), jnp.int32(tr.get_choices().static_is_empty()), tr.get_retval().shape[0], tr2.get_score(), w), (jnp.float32(0.0), jnp.int32(1), 0, jnp.float32(0.0), jnp.float32(0.0))

    obs.append(Ob("C11/zero-length-simulate/vmap0(inner1)", z, (gfi.KEY, jnp.zeros((0,), jnp.float32)), selfcheck=False, note="N=0: empty choice map, score 0, weight 0"))

    def za(key, xs):
        P0 = K.gf.vmap()
        tr = P0.simulate(key, (xs,))
        sc, rv = P0.assess(tr.get_choices(), tr.get_args())
        return (sc, rv.shape[0]), (tr.get_score(), 0)

    obs.append(Ob("C11/zero-length-assess/vmap0(inner1)", za, (gfi.KEY, jnp.zeros((0,), jnp.float32)), selfcheck=False, note="N=0: assess of the trace's own (empty) choices gives score 0"))
    return obs
