"""C31: the time-travel debugger records and replays executions faithfully."""
import jax
import jax.numpy as jnp
from genjax._src.core.compiler.interpreters.time_travel import rec, tag, time_machine
from genjax._src.core.pytree import Closure

from verif.engine import Ob

LEVEL = "model_checking"
BOUNDS = {"functions": "5 JAX functions with 2-5 record points / tags: straight-line, untagged record points interleaved with tagged ones and a repeated tag, record point whose callable closes over an argument, record inside arithmetic with array values, nested record points (a recorded callable that itself records)",
          "checks": "final_retval, every frame's args and local return value, remix at every frame with fresh symbolic arguments (final value and the re-recorded later frames), pointer range of jump/fwd/bwd (structural)"}
ASSUMPTIONS = ["frame count, order, tags and pointer ranges are static Python structure: evaluated directly per function (structural side checks, compared as constants inside the obligation)"]
OUTSIDE = ["record points under lax control flow (the CPS interpreter does not look inside sub-jaxprs)"]

F = lambda v: jnp.asarray(v, jnp.float32)  # noqa: E731


def f1(x, y):
    a = rec(lambda u, v: u * v + 1.0, "mul")(x, y)
    b = rec(lambda u: u * u, "sq")(a)
    c = tag(b + x, "sum")
    return c - y


F1_FRAMES = [("_enter", lambda x, y: ((x, y), f1_plain(x, y))),
             ("mul", lambda x, y: ((x, y), x * y + 1.0)),
             ("sq", lambda x, y: ((x * y + 1.0,), (x * y + 1.0) ** 2)),
             ("sum", lambda x, y: (((x * y + 1.0) ** 2 + x,), (x * y + 1.0) ** 2 + x)),
             ("exit", lambda x, y: ((f1_plain(x, y),), f1_plain(x, y)))]


def f1_plain(x, y):
    return (x * y + 1.0) ** 2 + x - y


# remix at frame j with new args -> final value of re-running f with that call recomputed
F1_REMIX = {
    "mul": (lambda x, y, p, q: ((p * q + 1.0) ** 2 + x - y), 2),
    "sq": (lambda x, y, p, q: (p * p + x - y), 1),
    "sum": (lambda x, y, p, q: (p - y), 1),
    "_enter": (lambda x, y, p, q: f1_plain(p, q), 2),
}


def f2(v, s):
    w = rec(Closure((s,), lambda s_, t: t * s_), "scale")(v)  # closes over s through a Pytree Closure
    z = tag(jnp.sum(w), "total")
    return z + s, w


def f2_plain(v, s):
    return jnp.sum(v * s) + s, v * s


def f3(x):
    def outer(u):
        inner = rec(lambda t: t + 2.0, "inner")(u)
        return inner * 3.0

    return rec(outer, "outer")(x) - 1.0


def obligations(tier, seed):
    obs = []

    def o1(x, y, p, q):
        dbg = time_machine(f1)(x, y)
        lhs, rhs = [dbg.final_retval], [f1_plain(x, y)]
        tags = []
        d = dbg
        for j, (tg, exp) in enumerate(F1_FRAMES):
            jt, fr = d.frame()
            tags.append(jt)
            ea, er = exp(x, y)
            lhs += [fr.args, fr.local_retval]
            rhs += [ea, er]
            d2 = d.fwd()
            lhs.append(jnp.int32(d2.ptr)); rhs.append(jnp.int32(min(j + 1, len(F1_FRAMES) - 1)))
            lhs.append(jnp.int32(d.bwd().ptr)); rhs.append(jnp.int32(max(j - 1, 0)))
            d = d2
        lhs.append(jnp.int32(len(dbg.sequence))); rhs.append(jnp.int32(len(F1_FRAMES)))
        lhs.append(jnp.int32(tags == [t for t, _ in F1_FRAMES])); rhs.append(jnp.int32(1))
        for tg, (exp, k) in F1_REMIX.items():
            na = (p, q)[:k]
            r = dbg.jump(tg).remix(*na)
            lhs.append(r.final_retval); rhs.append(exp(x, y, p, q))
            lhs.append(jnp.int32(r.ptr)); rhs.append(jnp.int32(dbg.jump_points[tg]))
            # the remixed frame records the new args and its recomputed local value
            _, fr = r.frame()
            lhs.append(fr.args); rhs.append(na)
        return lhs, rhs

    obs.append(Ob("C31/straight-line/f1", o1, (F(1.5), F(-0.5), F(2.0), F(0.25)), note="final_retval, 5 frames in execution order with args/local values, fwd/bwd pointer clamping, remix at 4 frames"))

    def o2(v, s, v2):
        dbg = time_machine(f2)(v, s)
        e = f2_plain(v, s)
        lhs, rhs = [dbg.final_retval], [e]
        sc = dbg.jump("scale")
        _, fr = sc.frame()
        lhs += [fr.args, fr.local_retval]; rhs += [(v,), v * s]
        _, ft = dbg.jump("total").frame()
        lhs += [ft.args, ft.local_retval]; rhs += [(jnp.sum(v * s),), jnp.sum(v * s)]
        r = sc.remix(v2)
        lhs.append(r.final_retval); rhs.append((jnp.sum(v2 * s) + s, v2 * s))
        lhs.append(jnp.int32(len(dbg.sequence))); rhs.append(jnp.int32(4))
        return lhs, rhs

    obs.append(Ob("C31/closure-and-arrays/f2", o2, (jnp.array([1.0, 2.0], jnp.float32), F(0.5), jnp.array([3.0, -1.0], jnp.float32)),
                  note="record point closing over an argument; array payloads; remix recomputes downstream"))

    def o3(x, p):
        dbg = time_machine(f3)(x)
        lhs, rhs = [dbg.final_retval], [(x + 2.0) * 3.0 - 1.0]
        names = []
        d = dbg
        for _ in range(len(dbg.sequence)):
            names.append(d.frame()[0])
            d = d.fwd()
        lhs.append(jnp.int32(names == ["_enter", "outer", "inner", "exit"])); rhs.append(jnp.int32(1))
        _, fo = dbg.jump("outer").frame()
        _, fi = dbg.jump("inner").frame()
        lhs += [fo.args, fo.local_retval, fi.args, fi.local_retval]
        rhs += [(x,), (x + 2.0) * 3.0, (x,), x + 2.0]
        lhs.append(dbg.jump("inner").remix(p).final_retval); rhs.append((p + 2.0) * 3.0 - 1.0)
        lhs.append(dbg.jump("outer").remix(p).final_retval); rhs.append((p + 2.0) * 3.0 - 1.0)
        return lhs, rhs

    # untagged record points (rec(g) / tag(v) with the default tag) interleaved with tagged ones, and a tag used twice:
    # jump(tag) must land on a frame that carries the tag (which one of several frames with the same tag is not specified and not asserted)
    def f4(x, y):
        a = rec(lambda u, v: u + v)(x, y)
        b = rec(lambda u: u * 2.0, "dbl")(a)
        c = tag(b - x)
        d = rec(lambda u, v: u * v, "prod")(c, y)
        e = rec(lambda u: u + 1.0, "dbl")(d)
        return e

    def o4(x, y, p, q):
        dbg = time_machine(f4)(x, y)
        c = 2.0 * (x + y) - x
        lhs, rhs = [dbg.final_retval], [c * y + 1.0]
        names = []
        d = dbg
        for _ in range(len(dbg.sequence)):
            names.append(d.frame()[0])
            d = d.fwd()
        lhs.append(jnp.int32(len(dbg.sequence))); rhs.append(jnp.int32(len(names)))
        for tg in ("prod", "dbl"):
            j = dbg.jump(tg)
            lhs.append(jnp.int32(0 <= j.ptr < len(names) and names[j.ptr] == tg)); rhs.append(jnp.int32(1))
            lhs.append(jnp.int32(j.frame()[0] == tg)); rhs.append(jnp.int32(1))
        _, fp = dbg.jump("prod").frame()
        lhs += [fp.args, fp.local_retval]; rhs += [(c, y), c * y]
        lhs.append(dbg.jump("prod").remix(p, q).final_retval); rhs.append(p * q + 1.0)
        return lhs, rhs

    obs.append(Ob("C31/untagged-and-repeated-tags/f4", o4, (F(1.5), F(-0.5), F(2.0), F(0.25)),
                  note="untagged record points before tagged ones and a repeated tag: jump(tag) lands on the frame carrying the tag; its args / local value / remix are that call's"))
    obs.append(Ob("C31/nested-records/f3", o3, (F(1.5), F(-2.0)), note="a recorded callable that itself records: frames in execution order, remix at inner and outer"))
    return obs
