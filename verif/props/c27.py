"""C27: Rejuvenate returns the Metropolis-Hastings log acceptance ratio."""
import jax
import jax.numpy as jnp
import genjax
from genjax import ChoiceMapBuilder as C
from genjax import Diff, GenerativeFunction
from genjax._src.generative_functions.static import StaticRequest
from genjax.inference.requests import Rejuvenate
from tensorflow_probability.substrates import jax as tfp

from verif.engine import Ob

tfd = tfp.distributions

LEVEL = "model_checking"
BOUNDS = {
    "models": "single normal; linked normals (y2 observed, tight and loose); 3-site chain; 2-step scan is outside",
    "proposals": "constant normal(0,1) [prior]; constant normal(c, s) with symbolic c; random walk normal(x_old, 0.3) through StaticRequest at the address; gen-fn random walk q(x_old) -> x ~ normal(x_old, .5) applied to the whole trace; two-address gen-fn proposal whose second draw depends on the first",
    "argument changes": "Rejuvenate at a site whose call-site argument changes in the same edit, and a whole-trace Rejuvenate with changed top-level arguments (the ratio's numerator and the new trace use the new arguments)",
    "symbolic": "current values, observed values, proposal location/scale arguments (scale > 0), the proposed value (draw atom of the key)",
}
ASSUMPTIONS = [
    "the proposed choices are whatever proposal.propose returned (the harness records GenerativeFunction.propose's outputs; in the encoding they are draw atoms)",
    "reference: log p and log q written with tfd.Normal.log_prob in plain JAX",
]
OUTSIDE = ["proposals that add or remove addresses", "accept/reject driver loops (the request returns the ratio only)"]

KEY = jax.random.key(0)
F = lambda v: jnp.asarray(v, jnp.float32)  # noqa: E731


def lpn(v, mu, s):
    return jnp.sum(tfd.Normal(mu, s).log_prob(v))


def recording_propose():
    rec = []
    orig = GenerativeFunction.propose

    def propose(self, key, args):
        out = orig(self, key, args)
        rec.append((self, args, out))
        return out

    return rec, orig, propose


def run(req, key, tr, argdiffs):
    rec, orig, patched = recording_propose()
    GenerativeFunction.propose = patched
    try:
        out = req.edit(key, tr, argdiffs)
    finally:
        GenerativeFunction.propose = orig
    assert len(rec) == 1, len(rec)
    return out, rec[0]


# ---- models


@genjax.gen
def single():
    _ = genjax.normal(0.0, 1.0) @ "y1"


@genjax.gen
def linked(s):
    y1 = genjax.normal(0.0, 3.0) @ "y1"
    _ = genjax.normal(y1, s) @ "y2"


@genjax.gen
def chain():
    x = genjax.normal(0.0, 1.0) @ "x"
    z = genjax.normal(x, 0.7) @ "z"
    _ = genjax.normal(x + z, 0.5) @ "y"
    return z


def lp_single(v, args):
    return lpn(v["y1"], 0.0, 1.0)


def lp_linked(v, args):
    return lpn(v["y1"], 0.0, 3.0) + lpn(v["y2"], v["y1"], args[0])


def lp_chain(v, args):
    return lpn(v["x"], 0.0, 1.0) + lpn(v["z"], v["x"], 0.7) + lpn(v["y"], v["x"] + v["z"], 0.5)


@genjax.gen
def q_walk(x_old):
    x = genjax.normal(x_old, 0.5) @ "x"
    return x


@genjax.gen
def q_two(x_old, z_old):
    x = genjax.normal(x_old, 0.5) @ "x"
    _ = genjax.normal(z_old + 0.5 * (x - x_old), 0.4) @ "z"


def obligations(tier, seed):
    obs = []

    # (name, model, args, values, log joint, request builder, moved addresses, log q(new | from-values, extra))
    def static_at(addr, proposal, mapping):
        return StaticRequest({addr: Rejuvenate(proposal, mapping)})

    cases = []
    # 1. proposal == prior (constant), symmetric in the test-suite's sense
    cases.append(("prior@y1/single", single, (), {"y1": F(0.3)}, lp_single, (), lambda e: static_at("y1", genjax.normal, lambda chm: (0.0, 1.0)),
                  ("y1",), lambda new, frm, e: lpn(new["y1"], 0.0, 1.0)))
    # 2. constant proposal with symbolic location/scale
    cases.append(("const(c,s)@y1/linked", linked, (F(0.5),), {"y1": F(0.3), "y2": F(1.1)}, lp_linked, (F(0.2), F(0.8)),
                  lambda e: static_at("y1", genjax.normal, lambda chm: (e[0], e[1])), ("y1",), lambda new, frm, e: lpn(new["y1"], e[0], e[1])))
    # 3. random walk around the current value (arguments depend on the current choices)
    cases.append(("walk(s)@y1/single", single, (), {"y1": F(0.3)}, lp_single, (F(0.3),),
                  lambda e: static_at("y1", genjax.normal, lambda chm: (chm.get_value(), e[0])), ("y1",), lambda new, frm, e: lpn(new["y1"], frm["y1"], e[0])))
    cases.append(("walk(s)@y1/linked", linked, (F(0.5),), {"y1": F(0.3), "y2": F(1.1)}, lp_linked, (F(0.3),),
                  lambda e: static_at("y1", genjax.normal, lambda chm: (chm.get_value(), e[0])), ("y1",), lambda new, frm, e: lpn(new["y1"], frm["y1"], e[0])))
    # 4. asymmetric walk: drifted location 0.5*x + c
    cases.append(("drift@y1/linked", linked, (F(0.5),), {"y1": F(0.3), "y2": F(1.1)}, lp_linked, (F(0.2), F(0.6)),
                  lambda e: static_at("y1", genjax.normal, lambda chm: (0.5 * chm.get_value() + e[0], e[1])), ("y1",),
                  lambda new, frm, e: lpn(new["y1"], 0.5 * frm["y1"] + e[0], e[1])))
    # 5. gen-fn proposal on the whole trace
    cases.append(("q_walk/chain", chain, (), {"x": F(0.3), "z": F(-0.2), "y": F(1.1)}, lp_chain, (),
                  lambda e: Rejuvenate(q_walk, lambda chm: (chm["x"],)), ("x",), lambda new, frm, e: lpn(new["x"], frm["x"], 0.5)))
    cases.append(("q_two/chain", chain, (), {"x": F(0.3), "z": F(-0.2), "y": F(1.1)}, lp_chain, (),
                  lambda e: Rejuvenate(q_two, lambda chm: (chm["x"], chm["z"])), ("x", "z"),
                  lambda new, frm, e: lpn(new["x"], frm["x"], 0.5) + lpn(new["z"], frm["z"] + 0.5 * (new["x"] - frm["x"]), 0.4)))

    # 6. the model arguments change in the same edit (the rejuvenated site's own call-site arguments, or the top-level arguments):
    #    the new trace and the numerator of the ratio are under the NEW arguments
    @genjax.gen
    def q_y1(y_old):
        _ = genjax.normal(y_old, 0.5) @ "y1"

    cases.append(("walk(s)@y2/linked+args", linked, (F(0.5),), {"y1": F(0.3), "y2": F(1.1)}, lp_linked, (F(0.3),),
                  lambda e: static_at("y2", genjax.normal, lambda chm: (chm.get_value(), e[0])), ("y2",), lambda new, frm, e: lpn(new["y2"], frm["y2"], e[0]), (F(0.9),)))
    cases.append(("q_y1/linked+args", linked, (F(0.5),), {"y1": F(0.3), "y2": F(1.1)}, lp_linked, (),
                  lambda e: Rejuvenate(q_y1, lambda chm: (chm["y1"],)), ("y1",), lambda new, frm, e: lpn(new["y1"], frm["y1"], 0.5), (F(0.9),)))

    for case in cases:
        nm, gf, args, vals, lj, extra, mkreq, moved, lq = case[:9]
        args2 = case[9] if len(case) > 9 else None

        def f(key, args, vals, extra, args2, gf=gf, lj=lj, mkreq=mkreq, moved=moved, lq=lq):
            tr, _ = gf.importance(key, C.kw(**vals), args)
            old_args = args
            (tr2, w, rd, bwd), (prop_gf, prop_args, (prop_chm, prop_score, _)) = run(mkreq(extra), jax.random.fold_in(key, 1), tr, Diff.no_change(args) if args2 is None else Diff.unknown_change(args2))
            args = args if args2 is None else args2
            ch = tr2.get_choices()
            new = {k: ch[k] for k in vals}
            # the proposed value(s) as returned by the proposal
            if len(moved) == 1 and prop_chm.get_value() is not None:
                proposed = {moved[0]: prop_chm.get_value()}
            else:
                proposed = {k: prop_chm[k] for k in moved}
            expect_new = {**vals, **proposed}
            ref_w = lj(new, args) + lq(vals, new, extra) - lj(vals, old_args) - lq(new, vals, extra)
            sc, _ = gf.assess(ch, args)
            return (new, w, tr2.get_score(), tr2.get_score(), tuple(tr2.get_args())), (expect_new, ref_w, lj(new, args), sc, tuple(args))

        def A(k, a, v, e, a2, nm=nm):
            out = [x[()] > 0 for x in a] + [x[()] > 0 for x in (a2 or ())]  # model scale args
            if nm.startswith("const") or nm.startswith("drift"):
                out.append(e[1][()] > 0)
            elif nm.startswith("walk"):
                out.append(e[0][()] > 0)
            return out

        obs.append(Ob(f"C27/mh-ratio/{nm}", f, (KEY, args, vals, extra, args2), assume=A, timeout_s=30,
                      note="new trace holds the proposed choices (others unchanged); weight == log p(x') + log q(x|x') - log p(x) - log q(x'|x); trace score == log p(x') == assess"))
    return obs
