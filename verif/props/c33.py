"""C33: invalid_subset reports exactly the constraint addresses a model cannot trace."""
import itertools
import time

import jax
import jax.numpy as jnp
import z3
from genjax import ChoiceMap
from genjax import ChoiceMapBuilder as C
from genjax._src.core.generative import choice_map as cm

from verif import gfi, programs as PG
from verif import pysel2smt as P
from verif.engine import Result

LEVEL = "model_checking"
BOUNDS = {"models": "catalogue programs (static, hierarchical/tuple addresses, vmap, repeat, scan, switch (incl. branches that disagree on value-vs-sub-map at the call address), mask, dimap, nested) - their traceable addresses are the reference",
          "addresses": "ALL addresses of length 0..4 over an unbounded alphabet (symbolic components) for the shape selection; choice maps mixing valid / unknown / too-deep / prefix addresses for the end-to-end result"}
ASSUMPTIONS = ["the shape selection computed by the REAL _shape_selection on the model's zero trace is imported as a ground term; its membership function is the source-derived encoding of C18 (engine E2); with C18's complement law, filter(~shape) keeps a value at address a iff a is not selected",
               "the final filter / static_is_empty / None step is evaluated on enumerated concrete choice maps (structural side checks, marked 'side'): it has no value-level input"]
OUTSIDE = ["dynamic (traced) index components in the constraint", "programs outside the catalogue"]

MODELS = ["inner2", "vmap(inner2)", "scan(kern2)", "switch(inner1,inner2s)", "mask(inner1)", "dimap(inner1)", "composed", "static(vmap)", "static(scan)", "static(switch)", "static(mask)", "repeat(inner1)"]


def _sw_leaf(structured_first):
    """a switch whose branches disagree on leaf-vs-hierarchical at the call address: 'out' holds a value in one branch and a sub-map in the other"""
    def build():
        br = [PG.inner1(), PG.Dist("normal")]
        ar = lambda a: [(a[0],), (a[0], PG._f(1.0))]  # noqa: E731
        if not structured_first:
            br.reverse()
        Sw = PG.Switch(br)
        return PG.Static("sswl", [("out", Sw, lambda a, r: (a[1],) + tuple(ar(a) if structured_first else ar(a)[::-1]))], lambda a, r: r[0], (PG._f(0.3), jnp.int32(1)))

    return build


EXTRA = {"static(switch(inner1,normal))": _sw_leaf(True), "static(switch(normal,inner1))": _sw_leaf(False)}


def model_of(nm):
    return EXTRA[nm]() if nm in EXTRA else PG.catalogue()[nm]()


def paths_of(Pm):
    return sorted({tuple(s.static_addr) for s in Pm.sites})


class ShapeLaw:
    def __init__(self, nm):
        self.name, self.nm = f"C33/shape-selection/{nm}", nm
        self.note = "member(_shape_selection(zero trace), a) <=> a is one of the model's traced static addresses, for ALL addresses a of length 0..4"

    def run(self, pid, known):
        t0 = time.time()
        res = Result(name=self.name, verdict="error", mode="E2")
        try:
            M = P.get_model(cm)
            Pm = model_of(self.nm)
            shape = Pm.gf.get_zero_trace(*Pm.args).get_choices()
            real_sel = cm._shape_selection(shape)
            names = {}
            term = P.from_real(M, real_sel, names)
            paths = paths_of(Pm)
            for p in paths:
                for c in p:
                    names.setdefault(c, len(names))
        except P.CannotEncode as e:
            res.verdict, res.detail = "unknown", f"cannot encode: {e}"
            return res
        res.functions = sorted(set("genjax/_src/core/generative/choice_map.py:" + f for f in M.encoded + ["_shape_selection"]))
        res.nontrivial = 1
        comps = [z3.Int(f"c{i}") for i in range(4)]
        sol = z3.Solver()
        sol.set("timeout", 60000)
        for c in comps:
            sol.add(c >= 0)
        inv = {v: k for k, v in names.items()}
        verdict = "unsat"
        for n in range(5):
            a = comps[:n]
            exp = z3.Or(*[z3.And(*[a[i] == names[p[i]] for i in range(n)]) for p in paths if len(p) == n]) if any(len(p) == n for p in paths) else z3.BoolVal(False)
            sol.push()
            sol.add(M.member(term, a) != exp)
            tq = time.time()
            r = str(sol.check())
            dt = time.time() - tq
            res.solver_s += dt
            res.queries.append({"q": f"|addr|={n}", "verdict": r, "ms": round(dt * 1e3, 1)})
            if r == "sat":
                m = sol.model()
                addr = tuple(inv.get(m.eval(c, model_completion=True).as_long(), f"other{m.eval(c, model_completion=True).as_long()}") for c in a)
                real = (real_sel[addr] if addr else real_sel.check())
                expected = addr in paths
                res.cex = {"model": self.nm, "addr": list(addr)}
                res.detail = f"address {addr}: shape selection says {real}, model traces it: {expected}"
                res.reproduced = bool(real) != expected
                verdict = "sat" if res.reproduced else "unknown"
                sol.pop()
                break
            if r != "unsat":
                verdict = "unknown"
                res.detail = f"|addr|={n}: solver {r}"
                sol.pop()
                break
            sol.pop()
        res.verdict = verdict
        res.ms = (time.time() - t0) * 1e3
        return res


def chm_from(Pm, assignment):
    """choice map holding example values at the given static paths (valid ones get the site's example value)"""
    out = C.n()
    by_path = {tuple(s.static_addr): s for s in Pm.sites}
    for p in assignment:
        v = by_path[p].example if p in by_path else jnp.float32(0.25)
        out = out | (C[p].set(v) if p else C.v(v))
    return out


def addresses_in(chm, candidates):
    return sorted(p for p in candidates if p and p in chm)


class SideCheck:
    """end-to-end result on enumerated concrete choice maps (no value-level input: decided by evaluation)"""

    def __init__(self, nm):
        self.name, self.nm = f"C33/side/invalid_subset/{nm}", nm
        self.note = "structural side check (not a solver obligation): for every small choice map mixing traced and untraceable addresses, invalid_subset is None iff all addresses are traceable, else it holds exactly the untraceable ones"

    def run(self, pid, known):
        res = Result(name=self.name, verdict="error", mode="structural")
        Pm = model_of(self.nm)
        paths = [p for p in paths_of(Pm) if p]
        bogus = [("zz_extra",)] + [p[:-1] + ("zz_leaf",) for p in paths[:2]] + [p + ("zz_deeper",) for p in paths[:1]]
        cands = list(dict.fromkeys(paths + bogus))
        n = 0
        for k in range(1, 4):
            for combo in itertools.combinations(cands, k):
                if any(a != b and a == b[: len(a)] for a in combo for b in combo):
                    continue  # a value and a sub-map at the same address cannot coexist
                try:
                    chm = chm_from(Pm, combo)
                    out = chm.invalid_subset(Pm.gf, Pm.args)
                except Exception as e:  # noqa: BLE001
                    res.verdict, res.reproduced = "raised", True
                    res.detail = f"{combo}: {type(e).__name__}: {str(e)[:200]}"
                    res.cex = {"combo": [list(c) for c in combo]}
                    return res
                n += 1
                bad = sorted(p for p in combo if p not in paths)
                got = None if out is None else addresses_in(out, cands)
                exp = None if not bad else bad
                if got != exp:
                    res.verdict, res.reproduced = "sat", True
                    res.detail = f"choice map with addresses {combo}: invalid_subset addresses {got}, expected {exp}"
                    res.cex = {"combo": [list(c) for c in combo]}
                    return res
        # choice maps that are a ChoiceMap.switch over a TRACED index (what a jitted caller builds): same expectation
        for pa, pb in itertools.combinations(cands[:5], 2):
            got_box = []

            def under_trace(i, pa=pa, pb=pb):
                chm = ChoiceMap.switch(i, [chm_from(Pm, (pa,)), chm_from(Pm, (pb,))])
                out = chm.invalid_subset(Pm.gf, Pm.args)
                got_box.append(None if out is None else addresses_in(out, cands))
                return i

            try:
                jax.make_jaxpr(under_trace)(jnp.int32(0))
            except Exception as e:  # noqa: BLE001
                res.verdict, res.reproduced = "raised", True
                res.detail = f"switch(traced, {pa}, {pb}): {type(e).__name__}: {str(e)[:200]}"
                res.cex = {"switch": [list(pa), list(pb)]}
                return res
            n += 1
            bad = sorted(p for p in {pa, pb} if p not in paths)
            exp = None if not bad else bad
            if got_box[0] != exp:
                res.verdict, res.reproduced = "sat", True
                res.detail = f"ChoiceMap.switch(traced idx, [{pa}, {pb}]): invalid_subset addresses {got_box[0]}, expected {exp}"
                res.cex = {"switch": [list(pa), list(pb)]}
                return res
        res.verdict, res.detail, res.leaves = "unsat", f"{n} choice maps evaluated", n
        return res


def obligations(tier, seed):
    cat = PG.catalogue()
    names = [m for m in MODELS if m in cat] if tier == "quick" else [m for m in cat if cat[m]().kind != "dist"]
    obs = []
    for nm in names + list(EXTRA):
        obs.append(ShapeLaw(nm))
    for nm in (names[:6] if tier == "quick" else names) + list(EXTRA):
        obs.append(SideCheck(nm))
    return obs
