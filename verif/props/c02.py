"""C02: scores are the exact joint log-density defined by the program."""
import jax
import jax.numpy as jnp
from genjax import Diff, Update

from verif import gfi, programs as PG
from verif.engine import Ob

LEVEL = "model_checking"
BOUNDS = {"programs": "catalogue (quick: 23, thorough: all incl. depth-3 nestings)", "array_length": "<=3", "values": "all reals / ints / bools (symbolic)"}
ASSUMPTIONS = ["reference denotation composes tfd.*.log_prob terms with Python loops (verif/programs.py); TFP is the oracle for a single density",
               "parameters in their domain (sigma>0, 0<p<1), categorical values in range"]
OUTSIDE = ["programs outside the catalogue grammar", "array lengths > 3"]


def obligations(tier, seed):
    cat, names = gfi.prog_names(tier)
    obs = []
    for nm in names:
        def mk(nm=nm):
            P = cat[nm]()

            def assess(args, vals):
                sc, rv = P.gf.assess(P.chm(vals), args)
                r = P.ref(args, vals)
                return (sc, PG.norm_ret(P, rv)), (r.score, PG.norm_ret(P, r.retval))

            def importance(key, args, vals):
                tr, w = P.gf.importance(key, P.chm(vals), args)
                r = P.ref(args, vals)
                return (tr.get_score(), w), (r.score, r.score)

            return P, assess, importance

        P, f_assess, f_imp = mk()
        A = gfi.base_assume(P, in_range=False)
        obs.append(Ob(f"C02/assess=ref/{nm}", f_assess, (P.args, P.example_vals()), assume=A,
                      note="assess(chm(vals), args) == reference joint log-density and return value, all args and values symbolic"))
        obs.append(Ob(f"C02/importance-full=ref/{nm}", f_imp, (gfi.KEY, P.args, P.example_vals()), assume=lambda k, a, v, A=A: A(a, v),
                      note="importance with a full constraint: trace score and weight == reference joint log-density"))
        if "update" in P.supports:
            args2 = jax.tree_util.tree_map(lambda x: x + 0.25 if jnp.issubdtype(x.dtype, jnp.floating) else x, P.args)

            def f_upd(key, args, vals, vals2, args2, P=P):
                tr, _ = P.gf.importance(key, P.chm(vals), args)
                tr2, w, rd, bwd = Update(P.chm(vals2, subset=(0,))).edit(key, tr, Diff.unknown_change(args2))
                r = P.ref(args2, gfi.trace_vals(P, tr2))
                return (tr2.get_score(),), (r.score,)

            obs.append(Ob(f"C02/update-score=ref/{nm}", f_upd, (gfi.KEY, P.args, P.example_vals(), gfi.perturb_vals(P), args2), assume=lambda k, a, v, v2, a2, A=A: A(a, v) + A(a2, v2),
                          note="importance(full); update(first site, new args): the new trace's score == reference joint log-density at its own values and the new args"))
            obs += gfi.update_at_index_obs("C02", nm, P, mode="score")
    return obs
