"""C29: ADEV estimators are correct derivative estimators."""
import sys

import jax
import jax.numpy as jnp
from genjax import adev
from genjax.adev import Dual, add_cost, baseline, expectation
from genjax._src.adev.primitives import REINFORCE
from tensorflow_probability.substrates import jax as tfp

from verif.engine import Ob, with_distinct_draw_keys

tfd = tfp.distributions

LEVEL = "model_checking"
BOUNDS = {
    "programs": "bodies over one discrete draw: lax.cond(b, A, B), jnp.where(b, A, B), add_cost(C) + cond; over one continuous draw: x*x + theta*x, theta*x + 1; two draws in sequence (enum then reparam)",
    "primitives": "flip_enum, flip_enum_parallel, categorical_enum_parallel (3 classes), normal_reparam, mv_normal_diag_reparam (dim 2), uniform, flip_reinforce, baseline(flip_reinforce), normal_reinforce, geometric_reinforce, flip_mvd, add_cost; grad_estimate; Expectation.estimate",
    "symbolic": "parameters theta (in the primitive's domain), tangents, the continuous noise draws",
}
ASSUMPTIONS = [
    "enumeration primitives: primal/tangent must equal jax.jvp of the closed-form finite sum sum_x p(x) f(x)",
    "reparameterised primitives: tangent must equal the pathwise derivative d/dtheta f(x(theta, eps)) at the drawn noise (observed by recording jax.random.normal / uniform inside the primitive's gradient strategy)",
    "REINFORCE-type estimators over a finite support are checked for EXACT unbiasedness: the sampler is replaced by a stub returning each support value in turn (randomness = environment) and sum_x p(x) * tangent(x) must equal the derivative of sum_x p(x) f(x); for infinite supports (normal, geometric) the estimator must equal the score-function formula f' + f * d log p (whose unbiasedness is the trusted lemma)",
]
OUTSIDE = ["beta_implicit and mv_normal_reparam (implicit-reparameterisation / Cholesky derivative kernels are opaque to the encoding)", "programs with more than two draws, loops"]

KEY = jax.random.key(0)
F = lambda v: jnp.asarray(v, jnp.float32)  # noqa: E731


class record_noise:
    """Observe jax.random.normal / uniform outputs drawn inside a primitive's gradient strategy."""

    def __init__(self, which):
        self.which = which

    def __enter__(self):
        self.rec = []
        self.orig = getattr(jax.random, self.which)

        def wrapped(key, *a, **k):
            out = self.orig(key, *a, **k)
            f = sys._getframe(1)
            while f is not None:
                if f.f_code.co_name in ("jvp_estimate", "before_tail_call") and f.f_code.co_filename.endswith("adev/primitives.py"):
                    self.rec.append(out)
                    break
                f = f.f_back
            return out

        setattr(jax.random, self.which, wrapped)
        return self.rec

    def __exit__(self, *exc):
        setattr(jax.random, self.which, self.orig)


# ---- program bodies over one boolean draw


def body_cond(b, th):
    return jax.lax.cond(b, lambda th: th * th, lambda th: -th / 2.0, th)


def body_where(b, th):
    return jnp.where(b, 2.0 * th, th * th + 1.0)


def body_cost(b, th):
    add_cost(th * th * 3.0)
    return jax.lax.cond(b, lambda th: th, lambda th: -th / 2.0, th)


def ref_cost(b, th):
    return th * th * 3.0 + jnp.where(b, th, -th / 2.0)


BODIES = {"cond": (body_cond, lambda b, th: jnp.where(b, th * th, -th / 2.0)), "where": (body_where, body_where), "add_cost": (body_cost, ref_cost)}


def obligations(tier, seed):
    obs = []
    unit = lambda k, th, t: [th[()] > 0, th[()] < 1]  # noqa: E731

    # ---- (A) enumeration: exact expectation and exact derivative
    for pn, prim in (("flip_enum", adev.flip_enum), ("flip_enum_parallel", adev.flip_enum_parallel)):
        for bn, (body, refbody) in BODIES.items():
            def f(key, th, t, prim=prim, body=body, refbody=refbody):
                prog = expectation(lambda th: body(prim(th), th))
                d = prog.jvp_estimate(key, Dual(th, t))

                def E(th):
                    return th * refbody(jnp.array(True), th) + (1 - th) * refbody(jnp.array(False), th)

                return (d.primal, d.tangent), jax.jvp(E, (th,), (t,))

            obs.append(Ob(f"C29/enum-exact/{pn}/{bn}", f, (KEY, F(0.3), F(1.0)), assume=unit, mode="exact", timeout_s=30,
                          note="primal == p f(T) + (1-p) f(F), tangent == its exact derivative, for all p, tangent"))

    def fcat(key, lg, t):
        prog = expectation(lambda lg: (adev.categorical_enum_parallel(lg).astype(jnp.float32) + 1.0) * lg[0] + lg[1] * lg[1])
        d = prog.jvp_estimate(key, Dual(lg, t))

        def E(lg):
            pr = jax.nn.softmax(lg)
            return sum(pr[i] * ((i + 1.0) * lg[0] + lg[1] * lg[1]) for i in range(3))

        return (d.primal, d.tangent), jax.jvp(E, (lg,), (t,))

    obs.append(Ob("C29/enum-exact/categorical_enum_parallel", fcat, (KEY, jnp.asarray([0.1, -0.3, 0.4], jnp.float32), jnp.asarray([1.0, 0.5, -1.0], jnp.float32)), timeout_s=60,
                  note="3 classes: primal/tangent == jvp of sum_i softmax(l)_i f(i)"))

    # ---- (B) reparameterisation: pathwise derivative at the drawn noise
    def fnr(key, mu, sg, tm, ts):
        def body(mu, sg):
            x = adev.normal_reparam(mu, sg)
            return x * x + mu * x

        with record_noise("normal") as rec:
            d = expectation(body).jvp_estimate(key, (Dual(mu, tm), Dual(sg, ts)))
        assert len(rec) == 1, len(rec)
        eps = rec[0]

        def path(mu, sg):
            x = mu + sg * eps
            return x * x + mu * x

        return (d.primal, d.tangent), jax.jvp(path, (mu, sg), (tm, ts))

    obs.append(Ob("C29/reparam/normal_reparam", fnr, (KEY, F(0.3), F(0.8), F(1.0), F(0.5)), assume=lambda k, m, s, a, b: [s[()] > 0], mode="exact", timeout_s=30,
                  note="primal == f(mu + sigma eps), tangent == d/d(mu,sigma) f(mu + sigma eps) . (tm, ts)"))

    def fmv(key, mu, sg, tm, ts):
        def body(mu, sg):
            x = adev.mv_normal_diag_reparam(mu, sg)
            return jnp.sum(x * x) + mu[0] * x[1]

        with record_noise("normal") as rec:
            d = expectation(body).jvp_estimate(key, (Dual(mu, tm), Dual(sg, ts)))
        assert len(rec) == 1, len(rec)
        eps = rec[0]

        def path(mu, sg):
            x = mu + sg * eps
            return jnp.sum(x * x) + mu[0] * x[1]

        return (d.primal, d.tangent), jax.jvp(path, (mu, sg), (tm, ts))

    v2 = lambda a, b: jnp.asarray([a, b], jnp.float32)  # noqa: E731
    obs.append(Ob("C29/reparam/mv_normal_diag_reparam", fmv, (KEY, v2(0.3, -0.2), v2(0.8, 1.1), v2(1.0, 0.0), v2(0.5, 0.25)), mode="exact", timeout_s=30,
                  note="dimension 2: pathwise derivative at the drawn noise vector"))

    def funi(key, th, t):
        def body(th):
            u = adev.uniform()
            return th * u + u * u + th * th

        with record_noise("uniform") as rec:
            d = expectation(body).jvp_estimate(key, Dual(th, t))
        assert len(rec) == 1, len(rec)
        u = rec[0]
        return (d.primal, d.tangent), jax.jvp(lambda th: th * u + u * u + th * th, (th,), (t,))

    obs.append(Ob("C29/reparam/uniform", funi, (KEY, F(0.3), F(1.0)), mode="exact", timeout_s=30, note="parameter-free draw: primal at the draw, tangent == partial derivative in theta"))

    # two draws in sequence: enumeration of a flip, then a reparameterised normal whose mean depends on it
    def fseq(key, th, t):
        def body(th):
            b = adev.flip_enum(th)
            x = adev.normal_reparam(jnp.where(b, th, -th), 0.5)
            return x * x + th

        with record_noise("normal") as rec:
            d = expectation(body).jvp_estimate(key, Dual(th, t))
        assert len(rec) == 2, len(rec)  # one continuation per enumerated value
        eT, eF = rec

        def E(th):
            xT, xF = th + 0.5 * eT, -th + 0.5 * eF
            return th * (xT * xT + th) + (1 - th) * (xF * xF + th)

        return (d.primal, d.tangent), jax.jvp(E, (th,), (t,))

    obs.append(Ob("C29/sequence/flip_enum;normal_reparam", fseq, (KEY, F(0.3), F(1.0)), assume=unit, mode="exact", timeout_s=30,
                  note="enumerated flip followed by a reparameterised normal in each continuation: exact outer expectation of the pathwise inner estimate"))

    # two reparameterised draws in sequence: pathwise derivative, and the two noise draws are independent (distinct keys)
    def fseq2(key, th, t):
        def body(th):
            x = adev.normal_reparam(th, 0.5)
            z = adev.normal_reparam(x * th, 0.7)
            return x * z + th

        with record_noise("normal") as rec:
            d = expectation(body).jvp_estimate(key, Dual(th, t))
        assert len(rec) == 2, len(rec)
        e1, e2 = rec

        def path(th):
            x = th + 0.5 * e1
            z = x * th + 0.7 * e2
            return x * z + th

        return (d.primal, d.tangent), jax.jvp(path, (th,), (t,))

    def replay_seq2(args):
        with record_noise("normal") as rec:
            expectation(lambda th: adev.normal_reparam(adev.normal_reparam(th, 0.5) * th, 0.7)).jvp_estimate(args[0], Dual(args[1], args[2]))
        return bool(jnp.all(rec[0] == rec[1])), f"noise draws {jnp.ravel(rec[0])} and {jnp.ravel(rec[1])}"

    obs.append(Ob("C29/sequence/normal_reparam;normal_reparam", fseq2, (KEY, F(0.3), F(1.0)), mode="exact", timeout_s=30, custom=with_distinct_draw_keys(("normal",), 2), replay=replay_seq2,
                  note="two reparameterised draws: pathwise derivative at the drawn noises, and the two draws use distinct PRNG keys (independent noise)"))

    # ---- (C) score-function estimators
    def stub(prim, value):
        return REINFORCE(lambda key, *a: value, prim.differentiable_logpdf)

    for bn, (body, refbody) in BODIES.items():
        for base in (False, True):
            def fr(key, th, t, bl, body=body, refbody=refbody, base=base):
                outs = []
                for val in (True, False):
                    st = stub(adev.flip_reinforce, jnp.array(val))
                    if base:  # the baseline itself depends on the differentiated parameter (non-zero tangent)
                        prog = expectation(lambda th: body(baseline(st)(bl * th + 1.0, th), th))
                        d = prog.jvp_estimate(key, Dual(th, t))
                    else:
                        prog = expectation(lambda th: body(st(th), th))
                        d = prog.jvp_estimate(key, Dual(th, t))
                    outs.append(d)
                dT, dF = outs

                def E(th):
                    return th * refbody(jnp.array(True), th) + (1 - th) * refbody(jnp.array(False), th)

                mean_tangent = th * dT.tangent + (1 - th) * dF.tangent
                return (dT.primal, dF.primal, mean_tangent), (refbody(jnp.array(True), th), refbody(jnp.array(False), th), jax.jvp(E, (th,), (t,))[1])

            obs.append(Ob(f"C29/unbiased/{'baseline(flip_reinforce)' if base else 'flip_reinforce'}/{bn}", fr, (KEY, F(0.3), F(1.0), F(10.0)), assume=lambda k, th, t, bl: [th[()] > 0, th[()] < 1], mode="exact", timeout_s=30,
                          note="primal == program value at the sampled b; sum_b p(b) tangent(b) == d/dp sum_b p(b) f(b): exact unbiasedness over the two sample values"))

    def fnre(key, mu, sg, tm, ts, x):
        st = stub(adev.normal_reinforce, x)
        d = expectation(lambda mu, sg: st(mu, sg) * mu + sg * sg).jvp_estimate(key, (Dual(mu, tm), Dual(sg, ts)))
        f = lambda mu, sg: x * mu + sg * sg  # noqa: E731
        fv, ft = jax.jvp(f, (mu, sg), (tm, ts))
        _, lt = jax.jvp(lambda mu, sg: tfd.Normal(mu, sg).log_prob(x), (mu, sg), (tm, ts))
        return (d.primal, d.tangent), (fv, ft + fv * lt)

    obs.append(Ob("C29/score-function/normal_reinforce", fnre, (KEY, F(0.3), F(0.8), F(1.0), F(0.5), F(0.1)), assume=lambda k, m, s, a, b, x: [s[()] > 0], timeout_s=30,
                  note="estimator == f' + f * d log N(x; mu, sigma) at the sampled x (score-function formula)"))

    def fgeo(key, th, t, x):
        st = REINFORCE(lambda key, args: x, adev.geometric_reinforce.differentiable_logpdf)
        d = expectation(lambda th: st((th,)) * th + 1.0).jvp_estimate(key, Dual(th, t))
        fv, ft = jax.jvp(lambda th: x * th + 1.0, (th,), (t,))
        _, lt = jax.jvp(lambda th: tfd.Geometric(th).log_prob(x), (th,), (t,))
        return (d.primal, d.tangent), (fv, ft + fv * lt)

    obs.append(Ob("C29/score-function/geometric_reinforce", fgeo, (KEY, F(0.3), F(1.0), F(2.0)), timeout_s=30, note="estimator == f' + f * d log Geometric(x; logits) at the sampled x"))

    # flip_mvd: the Bernoulli sampler is inside the strategy.  Exact unbiasedness: the sample is b = (u < p) for the single uniform
    # draw atom u; substituting u := 0 (b = True, since p > 0) and u := 1 (b = False, since p < 1) gives tangent(T), tangent(F).
    for bn, (body, refbody) in BODIES.items():
        def fmvd(key, th, t, body=body, refbody=refbody):
            d = expectation(lambda th: body(adev.flip_mvd(th), th)).jvp_estimate(key, Dual(th, t))

            def E(th):
                return th * refbody(jnp.array(True), th) + (1 - th) * refbody(jnp.array(False), th)

            return (d.primal, d.tangent), (refbody(jnp.array(True), th), refbody(jnp.array(False), th), jax.jvp(E, (th,), (t,))[1])

        def custom(interp, sym_args, outs, out_shape):
            import z3
            from verif import jaxsmt as J

            us = [d_ for d_ in interp.draws if d_.kind == "uniform"]
            assert len(us) == 1, [d_.kind for d_ in interp.draws]
            u = J.uf("draw_uniform", J.Key, z3.IntSort(), z3.RealSort())(us[0].key, z3.IntVal(0))
            primal, tangent, fT, fF, dE = [J.zreal(o[()]) for o in outs]
            p = sym_args[1][()]
            sub = lambda term, val: z3.substitute(term, (u, z3.RealVal(val)))  # noqa: E731
            interp.symbolic_leaves = 3
            return [("primal(T)", sub(primal, 0) != fT), ("primal(F)", sub(primal, 1) != fF),
                    ("sum_b p(b) tangent(b)", p * sub(tangent, 0) + (1 - p) * sub(tangent, 1) != dE)]

        def replay(args, fmvd=fmvd):
            """real code, eagerly: run keys until both sample values were seen; tangent(b) is deterministic given b"""
            import numpy as np

            _, th, t = args
            seen = {}
            for i in range(64):
                (primal, tangent), (fT, fF, dE) = fmvd(jax.random.key(1000 + i), th, t)
                b = bool(np.isclose(primal, fT)) if not np.isclose(fT, fF) else None
                if b is None:
                    return False, "f(T) == f(F): cannot tell the sample apart"
                seen.setdefault(b, float(tangent))
                if len(seen) == 2:
                    break
            if len(seen) < 2:
                return False, "only one sample value observed in 64 keys"
            mean = float(th) * seen[True] + (1 - float(th)) * seen[False]
            bad = abs(mean - float(dE)) > 1e-4 * (1 + abs(float(dE)))
            return bad, f"p*tangent(T)+(1-p)*tangent(F) = {mean} vs exact derivative {float(dE)} (tangent(T)={seen[True]}, tangent(F)={seen[False]}, p={float(th)})"

        obs.append(Ob(f"C29/unbiased/flip_mvd/{bn}", fmvd, (KEY, F(0.3), F(1.0)), assume=unit, custom=custom, replay=replay, mode="exact", selfcheck=False, timeout_s=30,
                      note="flip_mvd: primal == f(sampled b); p*tangent(T) + (1-p)*tangent(F) == d/dp sum_b p(b) f(b) (exact unbiasedness; the sampler's uniform draw atom is substituted by 0 and 1)"))

    # ---- (D) grad_estimate == jvp_estimate with a unit tangent
    for pn, mk in (("flip_enum/cond", lambda: expectation(lambda th: body_cond(adev.flip_enum(th), th))), ("normal_reparam", lambda: expectation(lambda th: adev.normal_reparam(th, 0.7) ** 2 + th))):
        def fg(key, th, mk=mk):
            prog = mk()
            (g,) = prog.grad_estimate(key, (th,))
            d = prog.jvp_estimate(key, Dual(th, jnp.ones_like(th)))
            return (g,), (d.tangent,)

        obs.append(Ob(f"C29/grad=jvp/{pn}", fg, (KEY, F(0.3)), assume=lambda k, th: [th[()] > 0, th[()] < 1], timeout_s=30, note="grad_estimate(key, (theta,)) == jvp_estimate(key, Dual(theta, 1)).tangent for the same key"))

    # ---- (E) Expectation.estimate returns the program's value at the given arguments
    def fest(key, th):
        prog = expectation(lambda th: body_cond(adev.flip_enum(th), th))
        return (prog.estimate(key, (th,)),), (th * th * th + (1 - th) * (-th / 2.0),)

    obs.append(Ob("C29/estimate/flip_enum/cond", fest, (KEY, F(0.3)), assume=lambda k, th: [th[()] > 0, th[()] < 1], mode="exact", timeout_s=30, note="estimate(key, args) == exact expectation at args (enumerated program)"))

    def fest2(key, mu):
        def body(mu):
            return adev.normal_reparam(mu, 0.7) ** 2 + mu

        prog = expectation(body)
        with record_noise("normal") as rec:
            v = prog.estimate(key, (mu,))
        assert len(rec) == 1
        return (v,), ((mu + 0.7 * rec[0]) ** 2 + mu,)

    obs.append(Ob("C29/estimate/normal_reparam", fest2, (KEY, F(0.3)), mode="exact", timeout_s=30, note="estimate(key, args) == program value at args for the drawn noise"))
    return obs
