"""C01: every trace agrees with assess on its own choices and arguments."""
import jax
import jax.numpy as jnp
from genjax import ChoiceMapBuilder as C
from genjax import Diff, IndexRequest, Regenerate, Update
from genjax import Selection as S

from verif import gfi, programs as PG
from verif.engine import Ob

LEVEL = "model_checking"
BOUNDS = {"programs": "catalogue (quick 24 / thorough all)", "histories": "simulate | importance(S) | importance;update(S,args') | ;update;update | ;regenerate(sel) | ;index-edit(i symbolic)",
          "array_length": "<=3", "constraint subsets": "all for <=3 sites, else empty/full/singletons/co-singletons"}
ASSUMPTIONS = ["both sides are outputs of the same traced callable (no external oracle)", "index edit positions 0<=i<n"]
OUTSIDE = ["project-only traces", "programs beyond the catalogue", "histories longer than 3 operations"]


def agree(P, tr):
    sc, rv = P.gf.assess(tr.get_choices(), tr.get_args())
    return (tr.get_score(), PG.norm_ret(P, tr.get_retval())), (sc, PG.norm_ret(P, rv))


def obligations(tier, seed):
    cat, names = gfi.prog_names(tier)
    obs = []
    for nm in names:
        P = cat[nm]()
        A = gfi.base_assume(P, in_range=False)
        n = len(P.sites)
        ex, ex2 = P.example_vals(), gfi.perturb_vals(P)
        args2 = jax.tree_util.tree_map(lambda x: x + 0.25 if jnp.issubdtype(x.dtype, jnp.floating) else x, P.args)

        def sim(key, args, P=P):
            return agree(P, P.gf.simulate(key, args))

        obs.append(Ob(f"C01/simulate/{nm}", sim, (gfi.KEY, P.args), assume=lambda k, a, A=A: A(a), note="trace from simulate (choices are draw atoms)"))
        for sub in gfi.subsets(n, tier):
            def imp(key, args, vals, P=P, sub=sub):
                tr, _ = P.gf.importance(key, P.chm(vals, subset=sub), args)
                return agree(P, tr)

            obs.append(Ob(f"C01/importance{list(sub)}/{nm}", imp, (gfi.KEY, P.args, ex), assume=lambda k, a, v, A=A: A(a, v),
                          note="trace from importance with the listed sites constrained"))
        if "update" in P.supports:
            usubs = [s for s in gfi.subsets(n, tier)] if tier == "thorough" else [(), tuple(range(n))] + [(i,) for i in range(min(n, 3))]
            usubs = list(dict.fromkeys(usubs))
            for sub in usubs:
                for chg in (False, True):
                    def upd(key, args, vals, vals2, args2, P=P, sub=sub, chg=chg):
                        tr, _ = P.gf.importance(key, P.chm(vals), args)
                        ad = Diff.unknown_change(args2) if chg else Diff.no_change(args)
                        tr2, w, rd, bwd = Update(P.chm(vals2, subset=sub)).edit(key, tr, ad)
                        return agree(P, tr2)

                    obs.append(Ob(f"C01/update{list(sub)}{'+args' if chg else ''}/{nm}", upd, (gfi.KEY, P.args, ex, ex2, args2),
                                  assume=lambda k, a, v, v2, a2, A=A: A(a, v) + A(a2, v2), note="importance(full) ; update(S, args changed?)"))
            # two updates in sequence
            def upd2(key, args, vals, vals2, vals3, args2, P=P):
                tr, _ = P.gf.importance(key, P.chm(vals), args)
                tr2, *_ = Update(P.chm(vals2, subset=(0,))).edit(key, tr, Diff.unknown_change(args2))
                tr3, *_ = Update(P.chm(vals3, subset=(n - 1,))).edit(key, tr2, Diff.no_change(args2))
                return agree(P, tr3)

            obs.append(Ob(f"C01/update;update/{nm}", upd2, (gfi.KEY, P.args, ex, ex2, ex, args2),
                          assume=lambda k, a, v, v2, v3, a2, A=A: A(a, v) + A(a2, v2) + A(a2, v3), note="importance ; update(first site, new args) ; update(last site)"))
        obs += gfi.update_at_index_obs("C01", nm, P, mode="agree")
        if "regenerate" in P.supports:
            sels = [("all", S.all()), ("none", S.none())]
            for s in P.sites[:3]:
                sels.append((str(s.static_addr), S.at[s.static_addr] if s.static_addr else S.all()))
            for sn, sel in sels:
                def reg(key, args, vals, P=P, sel=sel):
                    tr, _ = P.gf.importance(key, P.chm(vals), args)
                    tr2, *_ = Regenerate(sel).edit(key, tr, Diff.no_change(args))
                    return agree(P, tr2)

                obs.append(Ob(f"C01/regenerate[{sn}]/{nm}", reg, (gfi.KEY, P.args, ex), assume=lambda k, a, v, A=A: A(a, v), note="importance(full) ; regenerate(selection)"))
        if "index" in P.supports and P.kind in ("vmap", "scan"):
            K = P.meta["inner"]
            nlen = P.meta["n"]
            kv = K.example_vals()
            for si in range(len(K.sites)):
                def idx_edit(key, args, vals, i, newv, P=P, K=K, si=si):
                    tr, _ = P.gf.importance(key, P.chm(vals), args)
                    req = IndexRequest(i, Update(K.chm([newv if j == si else None for j in range(len(K.sites))], subset=(si,))))
                    tr2, *_ = req.edit(key, tr, Diff.no_change(args))
                    return agree(P, tr2)

                obs.append(Ob(f"C01/index-update[{K.sites[si].static_addr}]/{nm}", idx_edit, (gfi.KEY, P.args, ex, jnp.int32(1), (kv[si] + 0.5) if kv[si].dtype == jnp.float32 else kv[si]),
                              assume=lambda k, a, v, i, nv, A=A, nlen=nlen: A(a, v) + [i[()] >= 0, i[()] < nlen], note="importance(full) ; IndexRequest(i, Update(site)) with symbolic position 0<=i<n"))
    return obs
