"""C20: staging helpers select, branch and combine flags correctly."""
import itertools

import jax
import jax.numpy as jnp
from genjax._src.core.compiler.staging import FlagOp, multi_switch, tree_choose

from verif.engine import Ob

LEVEL = "model_checking"
BOUNDS = {"FlagOp": "and_/or_/xor_/not_/where/cond with every concrete/traced tagging, scalar and vector (length 3) flags, nested 3-flag formulas",
          "tree_choose": "2..4 choices, ALL integer indices (symbolic, unbounded), scalar/vector/pytree choices, mixed bool/int/float dtypes, concrete Python indices -n-1..n+1",
          "multi_switch": "2..3 branches with heterogeneous output shapes, ALL integer indices (symbolic) and every concrete Python int in -n-1..n+1"}
ASSUMPTIONS = ["result dtypes are static and compared as jaxpr metadata; values as reals/ints"]
OUTSIDE = ["more than 4 choices / 3 branches"]


def obligations(tier, seed):
    obs = []
    T = jnp.array(True)
    V = jnp.array([True, False, True])
    # ---- FlagOp binary/unary ops, each concrete/traced tagging
    ops = {"and_": (FlagOp.and_, jnp.logical_and), "or_": (FlagOp.or_, jnp.logical_or), "xor_": (FlagOp.xor_, jnp.logical_xor)}
    for nm, (real, ref) in ops.items():
        for tg in itertools.product("sTF", repeat=2):
            def f(a, b, real=real, ref=ref, tg=tg):
                x = a if tg[0] == "s" else (tg[0] == "T")
                y = b if tg[1] == "s" else (tg[1] == "T")
                return jnp.asarray(real(x, y)), ref(x, y)

            obs.append(Ob(f"C20/FlagOp.{nm}/scalar/{''.join(tg)}", f, (T, T), note="flags tagged s(ymbolic)/T/F (Python bools)"))
        obs.append(Ob(f"C20/FlagOp.{nm}/vec3", lambda a, b, real=real, ref=ref: (real(a, b), ref(a, b)), (V, V)))
        obs.append(Ob(f"C20/FlagOp.{nm}/vec3-scalar", lambda a, b, real=real, ref=ref: (real(a, b), ref(a, b)), (V, T)))
    for tg in "sTF":
        obs.append(Ob(f"C20/FlagOp.not_/scalar/{tg}", lambda a, tg=tg: (jnp.asarray(FlagOp.not_(a if tg == "s" else tg == "T")), jnp.logical_not(a if tg == "s" else tg == "T")), (T,)))
    obs.append(Ob("C20/FlagOp.not_/vec3", lambda a: (FlagOp.not_(a), jnp.logical_not(a)), (V,)))
    # where / cond
    for tg in "sTF":
        def w(a, x, y, tg=tg):
            fl = a if tg == "s" else tg == "T"
            return (jnp.asarray(FlagOp.where(fl, x, y)), jnp.asarray(FlagOp.cond(fl, lambda p, q: p * 2.0 + q, lambda p, q: p - q, x, y))), (jnp.where(fl, x, y), jnp.where(fl, x * 2.0 + y, x - y))

        obs.append(Ob(f"C20/FlagOp.where+cond/{tg}", w, (T, jnp.float32(1.5), jnp.float32(-0.5))))
    obs.append(Ob("C20/FlagOp.where/vec3", lambda a, x, y: (FlagOp.where(a, x, y), jnp.where(a, x, y)), (V, jnp.arange(3.0), -jnp.arange(3.0))))
    # nested formula: De Morgan and absorption through FlagOp
    def nested(a, b, c):
        lhs = FlagOp.not_(FlagOp.and_(a, FlagOp.or_(b, FlagOp.xor_(c, a))))
        rhs = jnp.logical_not(jnp.logical_and(a, jnp.logical_or(b, jnp.logical_xor(c, a))))
        return lhs, rhs

    obs.append(Ob("C20/FlagOp.nested/scalar", nested, (T, T, T)))
    obs.append(Ob("C20/FlagOp.nested/vec3", nested, (V, V, V)))

    # ---- tree_choose: element at idx mod n, all integers
    for n in (2, 3, 4):
        vals = [jnp.float32(1.0 + i) for i in range(n)]

        def tc(idx, vs, n=n):
            got = tree_choose(idx, vs)
            k = jnp.mod(idx, n)
            exp = sum(jnp.where(k == i, vs[i], 0.0) for i in range(n))
            return got, exp

        obs.append(Ob(f"C20/tree_choose/scalars{n}/all-int", tc, (jnp.int32(1), vals), note="symbolic unbounded integer index: result == vs[idx mod n]"))
        for ci in range(-n - 1, n + 2):
            obs.append(Ob(f"C20/tree_choose/scalars{n}/concrete{ci}", lambda vs, ci=ci, n=n: (tree_choose(ci, vs), vs[ci % n]), (vals,), note="Python int index"))
    pyt = [{"a": jnp.arange(2.0) + i, "b": (jnp.float32(i), jnp.ones((2, 2)) * i)} for i in range(3)]

    def tcp(idx, vs):
        got = tree_choose(idx, vs)
        k = jnp.mod(idx, 3)
        exp = jax.tree_util.tree_map(lambda *xs: sum(jnp.where(k == i, x, 0.0) for i, x in enumerate(xs)), *vs)
        return got, exp

    obs.append(Ob("C20/tree_choose/pytree3/all-int", tcp, (jnp.int32(1), pyt)))

    def tcmixed(idx, b, i, x):
        got = tree_choose(idx, [b, i, x])
        k = jnp.mod(idx, 3)
        exp = jnp.where(k == 0, b.astype(jnp.float32), jnp.where(k == 1, i.astype(jnp.float32), x))
        return (got, jnp.int32(got.dtype == jnp.float32)), (exp, jnp.int32(1))

    obs.append(Ob("C20/tree_choose/mixed-dtypes/all-int", tcmixed, (jnp.int32(1), jnp.array(True), jnp.int32(3), jnp.float32(2.5)), note="bool/int/float choices promote to float"))

    def tcbi(idx, b, i):
        got = tree_choose(idx, [b, i])
        k = jnp.mod(idx, 2)
        return (got, jnp.int32(got.dtype == jnp.int32)), (jnp.where(k == 0, b.astype(jnp.int32), i), jnp.int32(1))

    obs.append(Ob("C20/tree_choose/bool-int/all-int", tcbi, (jnp.int32(1), jnp.array(True), jnp.int32(3))))
    # vector index
    obs.append(Ob("C20/tree_choose/vector-index", lambda idx, a, b: (tree_choose(idx, [a, b]), jnp.where(jnp.mod(idx, 2) == 0, a, b)), (jnp.array([0, 1, 2], jnp.int32), jnp.arange(3.0), -jnp.arange(3.0))))

    # ---- multi_switch: runs the clamped branch, zero placeholders elsewhere
    def ms(idx, x, y):
        fs = [lambda p: p * 2.0, lambda p, q: (p + q, jnp.stack([p, q])), lambda q: {"z": q - 1.0}]
        outs = multi_switch(idx, fs, [(x,), (x, y), (y,)])
        k = jnp.clip(idx, 0, 2)
        exp = [jnp.where(k == 0, x * 2.0, 0.0), (jnp.where(k == 1, x + y, 0.0), jnp.where(k == 1, jnp.stack([x, y]), 0.0)), {"z": jnp.where(k == 2, y - 1.0, 0.0)}]
        return outs, exp

    obs.append(Ob("C20/multi_switch/3-heterogeneous/all-int", ms, (jnp.int32(1), jnp.float32(0.5), jnp.float32(1.5)), note="symbolic unbounded index: branch clamp(idx) ran, other slots are zeros"))

    def ms2(idx, x):
        outs = multi_switch(idx, [lambda p: p + 1.0, lambda p: jnp.array([p, p * p])], [(x,), (x,)])
        k = jnp.clip(idx, 0, 1)
        return outs, [jnp.where(k == 0, x + 1.0, 0.0), jnp.where(k == 1, jnp.array([x, x * x]), 0.0)]

    obs.append(Ob("C20/multi_switch/2-branches/all-int", ms2, (jnp.int32(0), jnp.float32(0.5))))
    for ci in range(-4, 5):
        def ms3c(x, y, ci=ci):
            fs = [lambda p: p * 2.0, lambda p, q: (p + q, jnp.stack([p, q])), lambda q: {"z": q - 1.0}]
            k = min(max(ci, 0), 2)
            z = jnp.float32(0.0)
            return multi_switch(ci, fs, [(x,), (x, y), (y,)]), [x * 2.0 if k == 0 else z, ((x + y) if k == 1 else z, jnp.stack([x, y]) if k == 1 else jnp.zeros(2)), {"z": (y - 1.0) if k == 2 else z}]

        obs.append(Ob(f"C20/multi_switch/3-heterogeneous/concrete{ci}", ms3c, (jnp.float32(0.5), jnp.float32(1.5)), note="concrete Python int index (every value in -n-1..n+1): same clamped branch as the traced index"))
    for ci in (-3, -2, -1, 0, 1, 2, 3):
        obs.append(Ob(f"C20/multi_switch/2-branches/concrete{ci}", lambda x, ci=ci: (multi_switch(ci, [lambda p: p + 1.0, lambda p: jnp.array([p, p * p])], [(x,), (x,)]),
                                                                                   [x + 1.0 if min(max(ci, 0), 1) == 0 else jnp.float32(0.0), jnp.array([x, x * x]) if min(max(ci, 0), 1) == 1 else jnp.zeros(2)]), (jnp.float32(0.5),)))
    return obs
