"""C30: VI objective gradient estimators are unbiased for their objectives."""
import sys

import jax
import jax.numpy as jnp
import genjax
from genjax import ChoiceMapBuilder as C
from genjax import Target
from tensorflow_probability.substrates import jax as tfp

from verif.engine import Ob, with_distinct_draw_keys

tfd = tfp.distributions

LEVEL = "model_checking"
BOUNDS = {
    "model/guide pairs": "conjugate Gaussian (mu~N(0,s0), v~N(mu,s1) observed) with a reparameterised normal guide q(mu; a, s); two-latent Gaussian with a two-site guide; flip model (b~flip(.3), y~N(+-1,1) observed) with an enumerated flip guide q(b; p)",
    "objectives": "ELBO, IWELBO (N = 1, 2), PWake, QWake",
    "symbolic": "variational parameters (s > 0, 0 < p < 1), observations, the guide's noise draws",
}
ASSUMPTIONS = [
    "reparameterised guides: the estimator must equal the pathwise gradient of the objective's integrand at the drawn noise eps (then E_eps[estimate] = gradient of the objective: differentiation under the integral, trusted); the noise is observed by recording jax.random.normal's outputs in the harness (draw atoms in the encoding)",
    "enumerated guides: the estimator must equal the exact gradient of the closed-form objective (a finite sum)",
    "objectives: ELBO = E_q[log p(x,obs) - log q(x)]; IWELBO_N = E[log (1/N) sum_i p(x_i,obs)/q(x_i)]; PWake = E_{x~posterior approx}[log p(x,obs; theta)]; QWake = E_{x~posterior approx}[log q(x; phi)]; the estimators return gradients of the NEGATED objectives (losses)",
]
OUTSIDE = ["exact unbiasedness of continuous REINFORCE guides (the estimator is checked against the score-function formula; finite-support unbiasedness is decided exactly under C29)", "N > 2", "non-Gaussian continuous guides"]

KEY = jax.random.key(0)
F = lambda v: jnp.asarray(v, jnp.float32)  # noqa: E731


def lpn(v, mu, s):
    return jnp.sum(tfd.Normal(mu, s).log_prob(v))


class record_normals:
    """Observe the outputs of jax.random.normal while the real estimator runs."""

    def __enter__(self):
        self.rec = []
        self.orig = jax.random.normal

        def normal(key, shape=(), dtype=float, *a, **k):
            out = self.orig(key, shape, dtype, *a, **k)
            # only the noise drawn by a primitive's gradient strategy (ADEVPrimitive.jvp_estimate), not the draws made
            # while `sample` is staged for shapes
            f, inside = sys._getframe(1), False
            while f is not None:
                if f.f_code.co_name in ("jvp_estimate", "before_tail_call") and f.f_code.co_filename.endswith("adev/primitives.py"):
                    inside = True
                    break
                f = f.f_back
            if inside:
                self.rec.append(out)
            return out

        jax.random.normal = normal
        return self.rec

    def __exit__(self, *exc):
        jax.random.normal = self.orig


# ---- conjugate Gaussian ------------------------------------------------------


@genjax.gen
def model(a, s):
    mu = genjax.normal(0.0, 3.0) @ "mu"
    _ = genjax.normal(mu, 0.5) @ "v"


def lj(mu, obs):
    return lpn(mu, 0.0, 3.0) + lpn(obs, mu, 0.5)


@genjax.marginal()
@genjax.gen
def guide(target):
    a, s = target.args
    _ = genjax.vi.normal_reparam(a, s) @ "mu"


@genjax.gen
def model2(a, s, c):
    x = genjax.normal(0.0, 2.0) @ "x"
    z = genjax.normal(x, 1.0) @ "z"
    _ = genjax.normal(x + z, 0.5) @ "v"


def lj2(x, z, obs):
    return lpn(x, 0.0, 2.0) + lpn(z, x, 1.0) + lpn(obs, x + z, 0.5)


@genjax.marginal()
@genjax.gen
def guide2(target):
    a, s, c = target.args
    x = genjax.vi.normal_reparam(a, s) @ "x"
    _ = genjax.vi.normal_reparam(c * x, 0.7) @ "z"


# ---- flip model ---------------------------------------------------------------


@genjax.gen
def fmodel(p):
    b = genjax.flip(0.3) @ "b"
    _ = genjax.normal(jnp.where(b, 1.0, -1.0), 1.0) @ "y"


def flj(b, obs):
    return jnp.sum(tfd.Bernoulli(probs=0.3, dtype=jnp.bool_).log_prob(b)) + lpn(obs, jnp.where(b, 1.0, -1.0), 1.0)


@genjax.marginal()
@genjax.gen
def fguide(target):
    (p,) = target.args
    _ = genjax.vi.flip_enum(p) @ "b"


def obligations(tier, seed):
    obs = []
    dom = lambda k, th, o: [th[1][()] > 0]  # noqa: E731

    # ---------------- ELBO, reparameterised normal guide
    def elbo(key, th, o):
        with record_normals() as rec:
            g = genjax.vi.ELBO(guide, lambda a, s: Target(model, (a, s), C["v"].set(o)))(key, th)
        assert len(rec) == 1, len(rec)
        eps = rec[0]

        def loss(th):
            a, s = th
            x = a + s * eps
            return -(lj(x, o) - lpn(x, a, s))

        return g, jax.grad(loss)(th)

    obs.append(Ob("C30/ELBO/normal-reparam", elbo, (KEY, (F(0.4), F(0.8)), F(1.3)), assume=dom, mode="exact", timeout_s=60,
                  note="ELBO gradient estimate == pathwise gradient of -(log p(x,obs) - log q(x)) at x = a + s*eps, for all a, s>0, obs, eps"))

    def elbo2(key, th, o):
        with record_normals() as rec:
            g = genjax.vi.ELBO(guide2, lambda a, s, c: Target(model2, (a, s, c), C["v"].set(o)))(key, th)
        assert len(rec) == 2, len(rec)
        e1, e2 = rec

        def loss(th):
            a, s, c = th
            x = a + s * e1
            z = c * x + 0.7 * e2
            return -(lj2(x, z, o) - lpn(x, a, s) - lpn(z, c * x, 0.7))

        return g, jax.grad(loss)(th)

    def replay_keys(args):
        """real code: the two recorded noise values must differ (same key => identical draws)"""
        with record_normals() as rec:
            genjax.vi.ELBO(guide2, lambda a, s, c: Target(model2, (a, s, c), C["v"].set(args[2])))(args[0], args[1])
        same = bool(jnp.all(rec[0] == rec[1]))
        return same, f"noise of site 1 = {jnp.ravel(rec[0])}, noise of site 2 = {jnp.ravel(rec[1])}"

    obs.append(Ob("C30/ELBO/two-site-guide", elbo2, (KEY, (F(0.4), F(0.8), F(0.5)), F(1.3)), assume=dom, mode="exact", timeout_s=60,
                  note="two dependent reparameterised sites: ELBO gradient == pathwise gradient at the drawn noise"))
    obs.append(Ob("C30/ELBO/two-site-guide/independent-noise", elbo2, (KEY, (F(0.4), F(0.8), F(0.5)), F(1.3)), assume=dom, mode="exact", timeout_s=60,
                  custom=with_distinct_draw_keys(("normal",), 2), replay=replay_keys,
                  note="the two sites' noise draws use distinct PRNG keys (independent draws): otherwise the expectation of the estimator is the gradient of a different objective"))

    # ---------------- ELBO with a score-function (REINFORCE) guide and a learnable MODEL parameter: the estimator must be the
    # score-function formula  grad loss(x) + loss(x) * grad log q(x)  at the sampled x (sampler stubbed: randomness = environment)
    from genjax._src.adev.primitives import REINFORCE
    from genjax._src.adev import primitives as adev_prims

    @genjax.gen
    def tmodel(a, s, th):
        mu = genjax.normal(th, 3.0) @ "mu"
        _ = genjax.normal(mu, 0.5) @ "v"

    def reinforce_elbo(key, th2, o, x):
        base = adev_prims.normal_reinforce
        stub = genjax.vi.adev_distribution(REINFORCE(lambda k, loc, scale: x, base.differentiable_logpdf), lambda v, loc, scale: tfd.Normal(loc, scale).log_prob(v), "normal_reinforce_stub")

        @genjax.marginal()
        @genjax.gen
        def rguide(target):
            a, th = target.args
            _ = stub(a, 0.8) @ "mu"

        @genjax.gen
        def tmodel2(a, th):
            mu = genjax.normal(th, 3.0) @ "mu"
            _ = genjax.normal(mu, 0.5) @ "v"

        g = genjax.vi.ELBO(rguide, lambda a, th: Target(tmodel2, (a, th), C["v"].set(o)))(key, th2)

        def loss(t2):
            a, th = t2
            return -(lpn(x, th, 3.0) + lpn(o, x, 0.5) - lpn(x, a, 0.8))

        def lq(t2):
            return lpn(x, t2[0], 0.8)

        gl = jax.grad(loss)(th2)
        gq = jax.grad(lq)(th2)
        return g, jax.tree_util.tree_map(lambda u, w: u + loss(th2) * w, gl, gq)

    obs.append(Ob("C30/ELBO/normal-reinforce+model-parameter", reinforce_elbo, (KEY, (F(0.4), F(0.2)), F(1.3), F(0.6)), mode="exact", timeout_s=60,
                  note="score-function guide (scale fixed at 0.8 so that the identity is polynomial) and a model parameter theta: estimate == grad loss(x) + loss(x) * grad log q(x) at the sampled x, for all (a, theta), obs, x (unbiasedness of that formula is the trusted REINFORCE lemma)"))

    # ---------------- IWELBO
    for N in (1, 2):
        def iw(key, th, o, N=N):
            with record_normals() as rec:
                g = genjax.vi.IWELBO(guide, lambda a, s: Target(model, (a, s), C["v"].set(o)), N)(key, th)
            assert len(rec) == N, len(rec)

            def loss(th):
                a, s = th
                lw = []
                for e in rec:
                    e = jnp.reshape(e, ())
                    x = a + s * e
                    lw.append(lj(x, o) - lpn(x, a, s))
                return -(jax.scipy.special.logsumexp(jnp.stack(lw)) - jnp.log(float(N)))

            return g, jax.grad(loss)(th)

        obs.append(Ob(f"C30/IWELBO[N={N}]/normal-reparam", iw, (KEY, (F(0.4), F(0.8)), F(1.3)), assume=dom, mode="uf" if N > 1 else "exact", timeout_s=60,
                      note="IWELBO gradient estimate == pathwise gradient of -log((1/N) sum_i p(x_i,obs)/q(x_i)) at the drawn noises"))

    # ---------------- ELBO with an enumerated discrete guide: exact gradient of the closed form
    def felbo(key, th, o):
        g = genjax.vi.ELBO(fguide, lambda p: Target(fmodel, (p,), C["y"].set(o)))(key, th)

        def loss(th):
            (p,) = th
            t = flj(jnp.array(True), o) - jnp.log(p)
            f = flj(jnp.array(False), o) - jnp.log1p(-p)
            return -(p * t + (1 - p) * f)

        return g, jax.grad(loss)(th)

    obs.append(Ob("C30/ELBO/flip-enum", felbo, (KEY, (F(0.4),), F(0.3)), assume=lambda k, th, o: [th[0][()] > 0, th[0][()] < 1], timeout_s=60,
                  note="enumerated flip guide: ELBO gradient estimate == exact gradient of -sum_b q(b) (log p(b,obs) - log q(b))"))

    # ---------------- PWake / QWake: sample from a fixed posterior approximation, differentiate model / proposal parameters
    @genjax.gen
    def pmodel(m):
        mu = genjax.normal(m, 3.0) @ "mu"
        _ = genjax.normal(mu, 0.5) @ "v"

    @genjax.marginal()
    @genjax.gen
    def approx(target):
        _ = genjax.vi.normal_reparam(0.7, 0.9) @ "mu"

    def pwake(key, th, o):
        with record_normals() as rec:
            g = genjax.vi.PWake(approx, lambda m: Target(pmodel, (m,), C["v"].set(o)))(key, th)
        assert len(rec) == 1, len(rec)
        x = 0.7 + 0.9 * rec[0]

        def loss(th):
            (m,) = th
            return -(lpn(x, m, 3.0) + lpn(o, x, 0.5))

        return g, jax.grad(loss)(th)

    obs.append(Ob("C30/PWake/normal", pwake, (KEY, (F(0.4),), F(1.3)), mode="exact", timeout_s=60,
                  note="PWake gradient == gradient of -log p(x,obs; m) at the sample x drawn from the posterior approximation"))

    @genjax.marginal()
    @genjax.gen
    def proposal(target):
        a, s = target.args
        _ = genjax.vi.normal_reparam(a, s) @ "mu"

    def qwake(key, th, o):
        with record_normals() as rec:
            g = genjax.vi.QWake(proposal, approx, lambda a, s: Target(model, (a, s), C["v"].set(o)))(key, th)
        assert len(rec) >= 1, len(rec)
        x = 0.7 + 0.9 * rec[0]

        def loss(th):
            a, s = th
            return -lpn(x, a, s)

        return g, jax.grad(loss)(th)

    obs.append(Ob("C30/QWake/normal", qwake, (KEY, (F(0.4), F(0.8)), F(1.3)), assume=dom, mode="exact", timeout_s=60,
                  note="QWake gradient == gradient of -log q(x; a, s) at the sample x drawn from the posterior approximation"))
    return obs
