"""C34: get_subtrace returns the sub-execution at an address."""
import jax
import jax.numpy as jnp

from verif import gfi, programs as PG
from verif.engine import Ob

LEVEL = "model_checking"
BOUNDS = {"programs": "static programs of the catalogue and their nestings under vmap / scan / switch / mask / dimap", "addresses": "every call address of each static program (string and tuple addresses), two-level paths through combinators"}
ASSUMPTIONS = ["reference: the per-site log-density terms of the call's sites (sum = the call's contribution to the parent score)"]
OUTSIDE = ["addresses the program did not trace (KeyError is not specified by the property)"]


def subview(Q, tr, batch=()):
    ch = tr.get_choices()
    out = []
    for s in Q.sites:
        sub = ch
        for a in s.static_addr:
            sub = sub.get_submap(a)
        v = sub.get_value()
        from genjax import Mask
        if isinstance(v, Mask):
            f = jnp.asarray(v.primal_flag())
            out.append((jnp.where(gfi._bf(jnp.broadcast_to(f, jnp.shape(v.value)[:f.ndim] if f.ndim else ()), v.value) if f.ndim else f, v.value, 0.0), jnp.broadcast_to(f, f.shape)))
        else:
            out.append((v, jnp.ones((), bool)))
    return out


def obligations(tier, seed):
    cat = PG.catalogue()
    obs = []
    names = ["inner2", "innerF", "composed", "static(vmap)", "static(scan)", "static(switch)", "static(mask)"]
    for nm in names:
        P = cat[nm]()
        A = gfi.base_assume(P, in_range=False)
        subs_ = P.meta["subs"]
        off = 0
        for addr, Q, _ in subs_:
            m = len(Q.sites)
            idxs = tuple(range(off, off + m))

            def f(key, args, vals, P=P, Q=Q, addr=addr, idxs=idxs):
                tr, _ = P.gf.importance(key, P.chm(vals), args)
                st = tr.get_subtrace(addr)
                r = P.ref(args, vals)
                contrib = sum((jnp.sum(r.terms[j]) for j in idxs), jnp.float32(0.0))
                # subtrace choices == parent's submap at the address
                pre = addr if isinstance(addr, tuple) else (addr,)
                parent_sub = tr.get_choices().get_submap(*pre) if False else tr.get_choices()
                for a in pre:
                    parent_sub = parent_sub.get_submap(a)
                lhs = [jnp.sum(st.get_score()), gfi.chm_view(Q, st.get_choices())]
                rhs = [contrib, gfi.chm_view(Q, parent_sub)]
                return lhs, rhs

            obs.append(Ob(f"C34/subtrace[{addr}]/{nm}", f, (gfi.KEY, P.args, P.example_vals()), assume=lambda k, a, v, A=A: A(a, v),
                          note="subtrace score == the call's contribution (sum of its reference terms); subtrace choices == parent's submap at the address"))
            off += m

        def total(key, args, vals, P=P):
            tr, _ = P.gf.importance(key, P.chm(vals), args)
            return jnp.sum(jnp.stack([jnp.sum(tr.get_subtrace(addr).get_score()) for addr, _, _ in P.meta["subs"]])), tr.get_score()

        obs.append(Ob(f"C34/sum-of-subtrace-scores/{nm}", total, (gfi.KEY, P.args, P.example_vals()), assume=lambda k, a, v, A=A: A(a, v), note="the subtrace scores add up to the parent score"))

    # after edits: the subtrace of the EDITED trace still equals the call's contribution at the new values (cached scores kept in step)
    from genjax import Diff, IndexRequest, StaticRequest, Update

    for nm in ["static(scan)", "static(vmap)", "composed"]:
        P = cat[nm]()
        A = gfi.base_assume(P, in_range=False)
        off = 0
        for addr, Q, _ in P.meta["subs"]:
            m = len(Q.sites)
            idxs = tuple(range(off, off + m))
            off += m
            if not ("index" in Q.supports and Q.kind in ("vmap", "scan")):
                continue
            K = Q.meta["inner"]
            nlen = Q.meta["n"]

            def fe(key, args, vals, i, newv, P=P, Q=Q, K=K, addr=addr, idxs=idxs):
                tr, _ = P.gf.importance(key, P.chm(vals), args)
                req = StaticRequest({addr: IndexRequest(i, Update(K.chm([newv] + [None] * (len(K.sites) - 1), subset=(0,))))})
                tr2, w, rd, bwd = req.edit(key, tr, Diff.no_change(args))
                st = tr2.get_subtrace(addr)
                r = P.ref(args, gfi.trace_vals(P, tr2))
                contrib = sum((jnp.sum(r.terms[j]) for j in idxs), jnp.float32(0.0))
                inner_addr = Q.sites[0].static_addr
                per_step = tr2.get_subtrace(*((addr,) if not isinstance(addr, tuple) else addr), *inner_addr).get_score() if len(K.sites) == 1 else None
                lhs, rhs = [jnp.sum(st.get_score()), tr2.get_score()], [contrib, r.score]
                if per_step is not None:
                    lhs.append(jnp.sum(per_step)); rhs.append(contrib)
                return lhs, rhs

            kv = K.example_vals()
            obs.append(Ob(f"C34/subtrace-after-index-edit[{addr}]/{nm}", fe, (gfi.KEY, P.args, P.example_vals(), jnp.int32(1), kv[0] + 0.5),
                          assume=lambda k, a, v, i, nv, A=A, nlen=nlen: A(a, v) + [i[()] >= 0, i[()] < nlen],
                          note="after StaticRequest({addr: IndexRequest(i, Update)}) with symbolic position i: the call's subtrace score == its contribution at the new values == the sum of its stacked per-step subtrace scores; parent score == reference"))

    # through vector combinators: stacked subtrace
    for nm in ["vmap(inner2)", "scan(kern2)", "switch(inner1,inner2)", "mask(inner2)", "map(inner2)"]:
        P = cat[nm]()
        A = gfi.base_assume(P, in_range=True)
        inner_addr = P.sites[-1].static_addr  # a call address of the innermost static function
        j = len(P.sites) - 1

        def g(key, args, vals, P=P, inner_addr=inner_addr, j=j):
            tr, _ = P.gf.importance(key, P.chm(vals), args)
            st = tr.get_subtrace(inner_addr)
            r = P.ref(args, vals)
            v, fl = gfi.chm_view(P, tr.get_choices())[j]
            sv = st.get_choices().get_value()
            pres = jnp.broadcast_to(jnp.asarray(r.present[j]), P.sites[j].batch)
            return (jnp.where(pres, st.get_score(), 0.0), jnp.where(pres, sv, 0.0)), (r.terms[j], jnp.where(pres, vals[j], 0.0))

        obs.append(Ob(f"C34/subtrace{list(inner_addr)}/{nm}", g, (gfi.KEY, P.args, P.example_vals()), assume=lambda k, a, v, A=A: A(a, v),
                      note="through vmap/scan/switch/mask/dimap: the (stacked) subtrace of a distribution call holds the site's values and per-element log-densities"))
    # switch with a CONCRETE index (Python int and concrete array), including out-of-range values that are clamped:
    # the subtrace at an address both branches trace must be the executed branch's
    P = cat["switch(inner1,inner2s)"]()
    A = gfi.base_assume(P, in_range=False)
    ja = [j for j, s_ in enumerate(P.sites) if s_.static_addr == ("a",)][0]
    for ci in (-2, -1, 0, 1, 2, 3):
        for as_array in (False, True):
            def h(key, bargs, vals, ci=ci, as_array=as_array):
                import numpy as np

                idx = np.int32(ci) if as_array else ci  # NumPy scalar: stays concrete while tracing
                args = (idx,) + tuple(bargs)
                tr, _ = P.gf.importance(key, P.chm(vals), args)
                st = tr.get_subtrace("a")
                r = P.ref((jnp.int32(ci),) + tuple(bargs), vals)
                return (st.get_score(), st.get_choices().get_value()), (jnp.sum(r.terms[ja]), tr.get_choices()["a"])

            obs.append(Ob(f"C34/subtrace-switch-concrete-idx[{ci}{',numpy' if as_array else ''}]/switch(inner1,inner2s)", h, (gfi.KEY, tuple(P.args[1:]), P.example_vals()),
                          assume=lambda k, a, v: P.assume(jnp.int32(0), *a) if False else [], note="concrete switch index (in and out of range): get_subtrace('a') is the clamped branch's call: its score == that site's log-density, its value == the parent's choice"))
    return obs
