"""C25: Marginal is an unbiased density sampler for the selected choices."""
import jax
import jax.numpy as jnp
import genjax
from genjax import ChoiceMapBuilder as C
from genjax import Selection as S
from genjax.inference import Target
from genjax._src.inference.smc import Importance
from genjax._src.inference.sp import Marginal
from tensorflow_probability.substrates import jax as tfp

from verif.engine import Ob

tfd = tfp.distributions

LEVEL = "model_checking"
BOUNDS = {
    "programs": "chain (x~N(0,1), y~N(x,s)); fork (x~N(m,1), y~N(x,.5), z~N(x+y,.7)); mixed (b~flip(p), y~N(b?1:-1,1)); vmapped chain of length 2",
    "selections": "every non-empty subset of the top-level addresses incl. all; none",
    "algorithms": "None (prior as the internal proposal)",
    "symbolic": "arguments, every sampled value (draw atoms of the key)",
}
ASSUMPTIONS = [
    "sufficient condition used for the SP contract E[exp(-w)|sample] = 1/p(sample) with the prior as internal proposal: for the jointly simulated (selected s, unselected u), w = log p(s,u) - log q(u;s) where q(u;s) is the product of the unselected sites' conditional densities given their parents, i.e. w = sum of the SELECTED sites' log-densities at the sampled values (importance-sampling lemma: E_{u~p(u|s)}[q(u;s)/p(s,u)] = 1/p(s); trusted, not re-proved)",
    "the hidden unselected values are observed by recording the trace returned by gen_fn.simulate inside random_weighted (harness wrapper; draw atoms in the encoding)",
]
OUTSIDE = ["Marginal with an inference algorithm: the algorithm object must be built around a Target that already contains the sample, for which there is no documented construction; with a placeholder target the reciprocal estimator has no stated meaning, so no reference can be given (not modelled, not claimed)", "selections below the top level"]

KEY = jax.random.key(0)
F = lambda v: jnp.asarray(v, jnp.float32)  # noqa: E731


def lpn(v, mu, s):
    return jnp.sum(tfd.Normal(mu, s).log_prob(v))


@genjax.gen
def chain(s):
    x = genjax.normal(0.0, 1.0) @ "x"
    y = genjax.normal(x, s) @ "y"
    return y


def t_chain(v, a):
    return {"x": lpn(v["x"], 0.0, 1.0), "y": lpn(v["y"], v["x"], a[0])}


@genjax.gen
def fork(m):
    x = genjax.normal(m, 1.0) @ "x"
    y = genjax.normal(x, 0.5) @ "y"
    z = genjax.normal(x + y, 0.7) @ "z"
    return z


def t_fork(v, a):
    return {"x": lpn(v["x"], a[0], 1.0), "y": lpn(v["y"], v["x"], 0.5), "z": lpn(v["z"], v["x"] + v["y"], 0.7)}


@genjax.gen
def mixed(p):
    b = genjax.flip(p) @ "b"
    y = genjax.normal(jnp.where(b, 1.0, -1.0), 1.0) @ "y"
    return y


def t_mixed(v, a):
    return {"b": jnp.sum(tfd.Bernoulli(probs=a[0], dtype=jnp.bool_).log_prob(v["b"])), "y": lpn(v["y"], jnp.where(v["b"], 1.0, -1.0), 1.0)}


@genjax.gen
def _elem(m):
    x = genjax.normal(m, 1.0) @ "x"
    y = genjax.normal(x, 0.5) @ "y"
    return y


@genjax.gen
def vchain(ms):
    r = _elem.vmap()(ms) @ "v"
    w = genjax.normal(jnp.sum(r), 1.0) @ "w"
    return w


def t_vchain(v, a):
    vx, vy = v["v"]
    return {"v": lpn(vx, a[0], 1.0) + lpn(vy, vx, 0.5), "w": lpn(v["w"], jnp.sum(vy), 1.0)}


def read(ch, name):
    if name == "v":
        return (ch["v", "x"], ch["v", "y"])
    return ch[name]


PROGS = {
    "chain": (chain, (F(0.6),), ("x", "y"), t_chain, lambda a: [a[0][()] > 0]),
    "fork": (fork, (F(0.2),), ("x", "y", "z"), t_fork, lambda a: []),
    "mixed": (mixed, (F(0.3),), ("b", "y"), t_mixed, lambda a: [a[0][()] > 0, a[0][()] < 1]),
    "vchain": (vchain, (jnp.asarray([0.2, -0.4], jnp.float32),), ("v", "w"), t_vchain, lambda a: []),
}


def sel_of(names):
    s = S.none()
    for n in names:
        s = s | S.at[n]
    return s


def run_rw(marg, key, args):
    """Real Marginal.random_weighted with the internal simulate's trace recorded."""
    cls = type(marg.gen_fn)
    rec, orig = [], cls.simulate

    def simulate(self, key_, args_):
        tr = orig(self, key_, args_)
        rec.append((self, tr))
        return tr

    cls.simulate = simulate
    try:
        w, chm = marg.random_weighted(key, *args)
    finally:
        cls.simulate = orig
    top = [tr for g, tr in rec if g is marg.gen_fn]
    assert len(top) == 1, len(top)
    return w, chm, top[0]


def subsets(names):
    import itertools

    return [c for r in range(1, len(names) + 1) for c in itertools.combinations(names, r)]


def obligations(tier, seed):
    obs = []
    for pn, (gf, args, names, terms, dom) in PROGS.items():
        sels = subsets(names)
        if tier == "quick" and len(names) > 2:
            sels = [s for s in sels if len(s) != 2 or s == ("x", "z")]
        for sel in sels:
            for alg in (None,):

                def f(key, args, gf=gf, names=names, terms=terms, sel=sel, alg=alg):
                    algorithm = Importance(Target(gf, args, C.n())) if alg else None
                    marg = Marginal(gf, sel_of(sel), algorithm)
                    w, chm, tr = run_rw(marg, key, args)
                    full = {n: read(tr.get_choices(), n) for n in names}
                    t = terms(full, args)
                    lhs = [w, {n: read(chm, n) for n in sel}]
                    rhs = [sum(t[n] for n in sel), {n: full[n] for n in sel}]
                    # nothing but the selected addresses is returned
                    lhs.append(jnp.int32(sum(int(n in chm) if n != "v" else int(("v", "x") in chm) for n in names if n not in sel)))
                    rhs.append(jnp.int32(0))
                    if alg is None and len(sel) == len(names):
                        # everything selected: exact marginal log-density == score == estimate_logpdf of the same sample
                        lhs += [w, marg.estimate_logpdf(jax.random.fold_in(key, 7), chm, *args)]
                        rhs += [tr.get_score(), sum(t.values())]
                    return lhs, rhs

                obs.append(Ob(f"C25/random_weighted[{'+'.join(sel)}{',importance' if alg else ''}]/{pn}", f, (KEY, args), assume=lambda k, a, dom=dom: dom(a), timeout_s=30,
                              note="weight == sum of the selected sites' log-densities at the jointly simulated values (== log p(s,u) - log q(u;s)); returned choices == the selected part of that simulation; all selected: weight == score == estimate_logpdf"))
        # upstream-only selections: the unselected choices do not influence the selected ones -> exact marginal density and == estimate_logpdf
        first = names[0]

        def g(key, args, gf=gf, first=first, terms=terms, names=names):
            marg = Marginal(gf, S.at[first], None)
            w, chm, tr = run_rw(marg, key, args)
            full = {n: read(tr.get_choices(), n) for n in names}
            e = marg.estimate_logpdf(jax.random.fold_in(key, 7), chm, *args)
            return (w, e), (terms(full, args)[first], terms(full, args)[first])

        obs.append(Ob(f"C25/upstream-exact[{first}]/{pn}", g, (KEY, args), assume=lambda k, a, dom=dom: dom(a), timeout_s=30,
                      note="selected = the root choice (nothing unselected influences it): weight == its exact marginal log-density == estimate_logpdf of the same sample"))
    return obs
