"""Shared helpers for GFI obligations over catalogue programs."""

from __future__ import annotations

import itertools

import jax
import jax.numpy as jnp
from genjax import ChoiceMapBuilder as C
from genjax import Diff, Mask

from . import programs as PG
from .engine import Ob

KEY = jax.random.key(0)

QUICK = [
    "normal", "flip", "categorical", "inner2", "innerF", "vmap(inner1)", "vmap(innerS;0,None)", "vmap(innerV;axis1)", "repeat(inner1)",
    "scan(walk)", "scan(kern2)", "scan(kernX)", "switch(inner1,inner2)", "switch(inner1,inner2s)", "switch3", "mask(inner1)", "dimap(inner1)",
    "map(inner2)", "contramap(innerS)", "or_else(inner1,inner2s)", "mix(inner1,inner2)", "composed", "static(vmap)",
    "static(scan)", "static(switch)", "static(mask)", "static(dimap;w)",
]


def prog_names(tier, subset=None):
    cat = PG.catalogue()
    names = list(cat) if tier == "thorough" else [n for n in QUICK if n in cat]
    if subset is not None:
        names = [n for n in names if subset(n)]
    return cat, names


def base_assume(P, with_vals=True, in_range=True):
    """Assumptions over (args, vals): parameter domains, supports, in-range switch indices."""

    def f(args, vals=None, *rest):
        out = list(P.assume(*args))
        if vals is not None and with_vals:
            out += P.val_assume(vals)
        if in_range:
            out += idx_in_range(P, args)
        return out

    return f


def idx_in_range(P, sargs):
    """0 <= idx < n for every switch index reachable in the args of P (known-finding region C13 is its complement)."""
    out = []
    if P.kind == "switch":
        n = len(P.meta["branches"])
        for e in sargs[0].reshape(-1):
            out += [e >= 0, e < n]
    elif P.kind == "vmap" and P.meta["inner"].kind == "switch":
        n = len(P.meta["inner"].meta["branches"])
        for e in sargs[0].reshape(-1):
            out += [e >= 0, e < n]
    elif P.name in ("composed", "ssw"):
        out += [sargs[1][()] >= 0, sargs[1][()] < 2]
    return out


def idx_out_of_range_region(P):
    """Region expression (string) for known_findings.json; None if P has no switch index among its args."""
    return None


def trace_view(P, tr):
    """Observable content of a trace: score, normalised retval, (value, flag) per site, args."""
    vals = []
    for (v, f), s in zip(P.read(tr.get_choices()), P.sites):
        if v is None:
            vals.append((jnp.zeros_like(s.example), jnp.zeros(s.batch, bool)))
        else:
            f = jnp.broadcast_to(jnp.asarray(f), s.batch)
            vals.append((jnp.where(_bf(f, v), v, jnp.zeros_like(v)), f))
    return {"score": tr.get_score(), "retval": PG.norm_ret(P, tr.get_retval()), "choices": vals}


def _bf(f, v):
    f = jnp.asarray(f)
    return f.reshape(f.shape + (1,) * (jnp.ndim(v) - f.ndim))


def ref_view(P, args, vals):
    r = P.ref(args, vals)
    ch = []
    for v, p_, s in zip(vals, r.present, P.sites):
        p_ = jnp.broadcast_to(jnp.asarray(p_), s.batch)
        ch.append((jnp.where(_bf(p_, v), v, jnp.zeros_like(v)), p_))
    return {"score": r.score, "retval": PG.norm_ret(P, r.retval), "choices": ch}


def full_trace(P, key, args, vals):
    """Trace with all choices given by vals (importance with a full constraint)."""
    tr, w = P.gf.importance(key, P.chm(vals), args)
    return tr, w


def subsets(n, tier):
    if n <= 3 or tier == "thorough" and n <= 4:
        return [tuple(c) for r in range(n + 1) for c in itertools.combinations(range(n), r)]
    out = [(), tuple(range(n))] + [(i,) for i in range(n)] + [tuple(j for j in range(n) if j != i) for i in range(n)]
    seen, res = set(), []
    for s in out:
        if s not in seen:
            seen.add(s)
            res.append(s)
    return res


def perturb_vals(P):
    """A second set of example values (for updates)."""
    out = []
    for s in P.sites:
        e = s.example
        if jnp.issubdtype(e.dtype, jnp.floating):
            out.append(e + 0.5)
        elif e.dtype == jnp.bool_:
            out.append(~e)
        else:
            out.append(jnp.zeros_like(e))
    return out


# --------------------------------------------------------------------------
# generic obligation families (shared by the combinator-specific properties)


def masked(v, fl, s):
    fl = jnp.broadcast_to(jnp.asarray(fl), s.batch)
    return jnp.where(_bf(fl, v), v, jnp.zeros_like(v)), fl


def chm_view(P, chm):
    out = []
    for (v, fl), s in zip(P.read(chm), P.sites):
        if v is None:
            out.append((jnp.zeros_like(s.example), jnp.zeros(s.batch, bool)))
        else:
            out.append(masked(v, fl, s))
    return out


def trace_vals(P, tr):
    return [g[0] if g[0] is not None else s.example for g, s in zip(P.read(tr.get_choices()), P.sites)]


def full_view(P, tr):
    """(observable trace content, reference content evaluated at the trace's own values and args)."""
    vals = trace_vals(P, tr)
    r = P.ref(tr.get_args(), vals)
    lhs = [tr.get_score(), PG.norm_ret(P, tr.get_retval())]
    rhs = [r.score, PG.norm_ret(P, r.retval)]
    got = chm_view(P, tr.get_choices())
    for i, s in enumerate(P.sites):
        lhs.append(got[i][1])
        rhs.append(jnp.broadcast_to(jnp.asarray(r.present[i]), s.batch))
    return lhs, rhs


def family(pid, nm, P, tier, ops=("assess", "simulate", "importance", "update", "regenerate", "index")):
    """Standard obligations comparing the real GFI with the reference denotation."""
    from genjax import IndexRequest, Regenerate, Update
    from genjax import Selection as S

    A = base_assume(P, in_range=False)
    n = len(P.sites)
    ex, ex2 = P.example_vals(), perturb_vals(P)
    args2 = jax.tree_util.tree_map(lambda x: x + 0.25 if jnp.issubdtype(x.dtype, jnp.floating) else x, P.args)
    obs = []
    if "assess" in ops:
        def f_assess(args, vals):
            sc, rv = P.gf.assess(P.chm(vals), args)
            r = P.ref(args, vals)
            return (sc, PG.norm_ret(P, rv)), (r.score, PG.norm_ret(P, r.retval))

        obs.append(Ob(f"{pid}/assess=ref/{nm}", f_assess, (P.args, ex), assume=A, note="assess == reference (score, retval)"))
    if "simulate" in ops:
        def f_sim(key, args):
            return full_view(P, P.gf.simulate(key, args))

        obs.append(Ob(f"{pid}/simulate=ref/{nm}", f_sim, (KEY, P.args), assume=lambda k, a: A(a), note="simulate: score/retval/presence == reference at the sampled values"))
    if "importance" in ops:
        for sub in subsets(n, tier):
            def f_imp(key, args, vals, sub=sub):
                tr, w = P.gf.importance(key, P.chm(vals, subset=sub), args)
                lhs, rhs = full_view(P, tr)
                tv = trace_vals(P, tr)
                r = P.ref(args, tv)
                lhs.append(w)
                rhs.append(sum((jnp.sum(r.terms[i]) for i in sub), jnp.float32(0.0)))
                got = chm_view(P, tr.get_choices())
                for i in sub:
                    lhs.append(got[i][0])
                    rhs.append(masked(vals[i], got[i][1], P.sites[i])[0])
                return lhs, rhs

            obs.append(Ob(f"{pid}/importance{list(sub)}=ref/{nm}", f_imp, (KEY, P.args, ex), assume=lambda k, a, v: A(a, v),
                          note="importance(S): score/retval/presence == reference at trace values, weight == sum of constrained terms, constraint installed"))
    if "update" in ops and "update" in P.supports:
        subs = subsets(n, tier) if tier == "thorough" else list(dict.fromkeys([(), tuple(range(n))] + [(i,) for i in range(min(n, 3))]))
        for sub in subs:
            for chg in (False, True):
                def f_upd(key, args, vals, vals2, args2, sub=sub, chg=chg):
                    tr, _ = P.gf.importance(key, P.chm(vals), args)
                    ad = Diff.unknown_change(args2) if chg else Diff.no_change(args)
                    tr2, w, rd, bwd = Update(P.chm(vals2, subset=sub)).edit(key, tr, ad)
                    lhs, rhs = full_view(P, tr2)
                    lhs.append(tr2.get_args())
                    rhs.append(args2 if chg else args)
                    return lhs, rhs

                obs.append(Ob(f"{pid}/update{list(sub)}{'+args' if chg else ''}=ref/{nm}", f_upd, (KEY, P.args, ex, ex2, args2),
                              assume=lambda k, a, v, v2, a2: A(a, v) + A(a2, v2), note="after update: score/retval/presence == reference at the new trace's values and args"))
    if "update" in ops:
        obs += update_at_index_obs(pid, nm, P)
    if "regenerate" in ops and "regenerate" in P.supports:
        for sn, sel in [("all", S.all()), ("none", S.none())] + [(str(s.static_addr), S.at[s.static_addr]) for s in P.sites[:2] if s.static_addr]:
            def f_reg(key, args, vals, sel=sel):
                tr, _ = P.gf.importance(key, P.chm(vals), args)
                tr2, w, rd, bwd = Regenerate(sel).edit(jax.random.fold_in(key, 3), tr, Diff.no_change(args))
                return full_view(P, tr2)

            obs.append(Ob(f"{pid}/regenerate[{sn}]=ref/{nm}", f_reg, (KEY, P.args, ex), assume=lambda k, a, v: A(a, v), note="after regenerate: trace == reference at its own values"))
    if "index" in ops and "index" in P.supports and P.kind in ("vmap", "scan"):
        K = P.meta["inner"]
        nlen = P.meta["n"]
        kv = K.example_vals()
        for si in range(len(K.sites)):
            nv = (kv[si] + 0.5) if kv[si].dtype == jnp.float32 else kv[si]

            def f_idx(key, args, vals, i, newv, si=si):
                tr, _ = P.gf.importance(key, P.chm(vals), args)
                req = IndexRequest(i, Update(K.chm([newv if j == si else None for j in range(len(K.sites))], subset=(si,))))
                tr2, w, rd, bwd = req.edit(key, tr, Diff.no_change(args))
                lhs, rhs = full_view(P, tr2)
                # element i of the edited site holds the new value, all other elements the old ones
                got = chm_view(P, tr2.get_choices())
                for j, s in enumerate(P.sites):
                    sel_i = (jnp.arange(nlen) == i).reshape((nlen,) + (1,) * (vals[j].ndim - 1))
                    expect = jnp.where(sel_i, jnp.broadcast_to(newv, vals[j].shape), vals[j]) if j == si else vals[j]
                    lhs.append(got[j][0])
                    rhs.append(masked(expect, got[j][1], s)[0])
                r_old = P.ref(args, vals)
                r_new = P.ref(args, trace_vals(P, tr2))
                lhs.append(w)
                rhs.append(r_new.score - r_old.score)
                return lhs, rhs

            obs.append(Ob(f"{pid}/index-update[{K.sites[si].static_addr}]=ref/{nm}", f_idx, (KEY, P.args, ex, jnp.int32(1), nv),
                          assume=lambda k, a, v, i, nv_, nlen=nlen: A(a, v) + [i[()] >= 0, i[()] < nlen],
                          note="IndexRequest(i symbolic, Update(site)): only element i changes; trace == reference loop; weight == newscore-oldscore"))
    return obs


def update_at_index_obs(pid, nm, P, mode="full"):
    """Update(C[i, addr].set(v)) with a symbolic index i on a vmap/scan program (optionally with changed args):
    the constraint reaches every element other than i as a masked-off constraint.
    mode 'full': compare with the reference (values, presence, score, retval, weight);
    mode 'agree': the new trace agrees with assess on its own choices/args (C01);
    mode 'score': new trace score == reference log-density at its own values and args (C02)."""
    from genjax import Update

    if not ("update" in P.supports and P.kind in ("vmap", "scan") and P.meta["n"] > 0 and all(len(s_.batch) == 1 for s_ in P.sites)):
        return []
    A = base_assume(P, in_range=False)
    ex = P.example_vals()
    args2 = jax.tree_util.tree_map(lambda x: x + 0.25 if jnp.issubdtype(x.dtype, jnp.floating) else x, P.args)
    nlen = P.meta["n"]
    obs = []
    for si, st in enumerate(P.sites[:2]):
        nv = (st.example[0] + 0.5) if st.example.dtype == jnp.float32 else st.example[0]
        for chg in (False, True):
            if chg and any(k in P.name for k in ("switch", "or_else", "mix", "composed", "ssw")):
                continue  # a switch index tagged UnknownChange is a documented resampling trigger: the reference (no resampling) does not apply
            def f_iu(key, args, vals, i, newv, args2, si=si, st=st, chg=chg):
                tr, _ = P.gf.importance(key, P.chm(vals), args)
                ad = Diff.unknown_change(args2) if chg else Diff.no_change(args)
                tr2, w, rd, bwd = Update(C[(i,) + st.static_addr].set(newv)).edit(key, tr, ad)
                if mode == "agree":
                    sc, rv = P.gf.assess(tr2.get_choices(), tr2.get_args())
                    return (tr2.get_score(), PG.norm_ret(P, tr2.get_retval())), (sc, PG.norm_ret(P, rv))
                if mode == "score":
                    r_new = P.ref(args2 if chg else args, trace_vals(P, tr2))
                    return (tr2.get_score(),), (r_new.score,)
                lhs, rhs = full_view(P, tr2)
                got = chm_view(P, tr2.get_choices())
                for j, s_ in enumerate(P.sites):
                    sel_i = (jnp.arange(nlen) == i).reshape((nlen,) + (1,) * (vals[j].ndim - 1))
                    expect = jnp.where(sel_i, jnp.broadcast_to(newv, vals[j].shape), vals[j]) if j == si else vals[j]
                    lhs.append(got[j][0])
                    rhs.append(masked(expect, got[j][1], s_)[0])
                r_old = P.ref(args, vals)
                r_new = P.ref(args2 if chg else args, trace_vals(P, tr2))
                lhs += [w, tr2.get_args()]
                rhs += [r_new.score - r_old.score, args2 if chg else args]
                return lhs, rhs

            obs.append(Ob(f"{pid}/update-at-index[{st.static_addr}]{'+args' if chg else ''}{'=ref' if mode != 'agree' else ''}/{nm}", f_iu, (KEY, P.args, ex, jnp.int32(1), nv, args2),
                          assume=lambda k, a, v, i, nv_, a2, nlen=nlen: A(a, v) + A(a2) + [i[()] >= 0, i[()] < nlen],
                          note="importance(full); Update(C[i, addr].set(v)), i symbolic in range (+ changed args): only element i takes the new value; other elements see a masked-off constraint"))
    return obs
