"""Shared helpers for GFI obligations over catalogue programs."""

from __future__ import annotations

import itertools

import jax
import jax.numpy as jnp
from genjax import ChoiceMapBuilder as C
from genjax import Diff, Mask

from . import programs as PG
from .engine import Ob

KEY = jax.random.key(0)

QUICK = [
    "normal", "flip", "categorical", "inner2", "innerF", "vmap(inner1)", "vmap(innerS;0,None)", "repeat(inner1)",
    "scan(walk)", "scan(kern2)", "switch(inner1,inner2)", "switch(inner1,inner2s)", "switch3", "mask(inner1)", "dimap(inner1)",
    "map(inner2)", "contramap(innerS)", "or_else(inner1,inner2s)", "mix(inner1,inner2)", "composed", "static(vmap)",
    "static(scan)", "static(switch)", "static(mask)",
]


def prog_names(tier, subset=None):
    cat = PG.catalogue()
    names = list(cat) if tier == "thorough" else [n for n in QUICK if n in cat]
    if subset is not None:
        names = [n for n in names if subset(n)]
    return cat, names


def base_assume(P, with_vals=True, in_range=True):
    """Assumptions over (args, vals): parameter domains, supports, in-range switch indices."""

    def f(args, vals=None, *rest):
        out = list(P.assume(*args))
        if vals is not None and with_vals:
            out += P.val_assume(vals)
        if in_range:
            out += idx_in_range(P, args)
        return out

    return f


def idx_in_range(P, sargs):
    """0 <= idx < n for every switch index reachable in the args of P (known-finding region C13 is its complement)."""
    out = []
    if P.kind == "switch":
        n = len(P.meta["branches"])
        for e in sargs[0].reshape(-1):
            out += [e >= 0, e < n]
    elif P.kind == "vmap" and P.meta["inner"].kind == "switch":
        n = len(P.meta["inner"].meta["branches"])
        for e in sargs[0].reshape(-1):
            out += [e >= 0, e < n]
    elif P.name in ("composed", "ssw"):
        out += [sargs[1][()] >= 0, sargs[1][()] < 2]
    return out


def idx_out_of_range_region(P):
    """Region expression (string) for known_findings.json; None if P has no switch index among its args."""
    return None


def trace_view(P, tr):
    """Observable content of a trace: score, normalised retval, (value, flag) per site, args."""
    vals = []
    for (v, f), s in zip(P.read(tr.get_choices()), P.sites):
        if v is None:
            vals.append((jnp.zeros_like(s.example), jnp.zeros(s.batch, bool)))
        else:
            f = jnp.broadcast_to(jnp.asarray(f), s.batch)
            vals.append((jnp.where(_bf(f, v), v, jnp.zeros_like(v)), f))
    return {"score": tr.get_score(), "retval": PG.norm_ret(P, tr.get_retval()), "choices": vals}


def _bf(f, v):
    f = jnp.asarray(f)
    return f.reshape(f.shape + (1,) * (jnp.ndim(v) - f.ndim))


def ref_view(P, args, vals):
    r = P.ref(args, vals)
    ch = []
    for v, p_, s in zip(vals, r.present, P.sites):
        p_ = jnp.broadcast_to(jnp.asarray(p_), s.batch)
        ch.append((jnp.where(_bf(p_, v), v, jnp.zeros_like(v)), p_))
    return {"score": r.score, "retval": PG.norm_ret(P, r.retval), "choices": ch}


def full_trace(P, key, args, vals):
    """Trace with all choices given by vals (importance with a full constraint)."""
    tr, w = P.gf.importance(key, P.chm(vals), args)
    return tr, w


def subsets(n, tier):
    if n <= 3 or tier == "thorough" and n <= 4:
        return [tuple(c) for r in range(n + 1) for c in itertools.combinations(range(n), r)]
    out = [(), tuple(range(n))] + [(i,) for i in range(n)] + [tuple(j for j in range(n) if j != i) for i in range(n)]
    seen, res = set(), []
    for s in out:
        if s not in seen:
            seen.add(s)
            res.append(s)
    return res


def perturb_vals(P):
    """A second set of example values (for updates)."""
    out = []
    for s in P.sites:
        e = s.example
        if jnp.issubdtype(e.dtype, jnp.floating):
            out.append(e + 0.5)
        elif e.dtype == jnp.bool_:
            out.append(~e)
        else:
            out.append(jnp.zeros_like(e))
    return out
