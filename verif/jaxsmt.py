"""E1: symbolic execution of jaxprs into z3 terms.

Values are NumPy object arrays whose elements are Python constants (bool, int,
Fraction, float for +-inf/nan) or z3 terms (Bool / Int / Real / Key).  The same
rules fold concrete values and build terms for symbolic ones, so evaluating the
interpreter on concrete inputs is the self-validation of the encoding.
"""

from __future__ import annotations

import hashlib
import itertools
import math
import os
from fractions import Fraction

import jax
import jax.numpy as jnp
import numpy as np
import z3
from jax import lax
from jax.extend import core as jex_core  # noqa: F401

REPO_ROOT = os.environ.get("VERIF_REPO_SRC", "/repo/src")  # seeded-change evaluation points this at a scratch worktree
REPO_SRC = REPO_ROOT + "/genjax"


class Unsupported(Exception):
    """The encoding cannot represent this construct: inconclusive, never a pass."""


# --------------------------------------------------------------------------
# sorts

Key = z3.Datatype("Key")
Key.declare("root", ("rid", z3.IntSort()))
Key.declare("seed", ("sval", z3.IntSort()))
Key.declare("fold_in", ("fparent", Key), ("fdata", z3.IntSort()))
Key.declare("split", ("sparent", Key), ("sidx", z3.IntSort()))
Key.declare("wrap", ("w0", z3.IntSort()), ("w1", z3.IntSort()))
Key = Key.create()

_R = z3.RealSort()
_I = z3.IntSort()
_B = z3.BoolSort()

_UFS: dict = {}
_STRUCT_CACHE: dict = {}  # (primitive, params, input shapes) -> position arrays of a structural primitive


def uf(name, *sorts):
    k = (name, tuple(str(s) for s in sorts))
    if k not in _UFS:
        _UFS[k] = z3.Function(name, *sorts)
    return _UFS[k]


def is_sym(x):
    return isinstance(x, z3.ExprRef)


def is_key_dtype(dt):
    return jax.dtypes.issubdtype(dt, jax.dtypes.prng_key)


def kind_of(dt):
    if is_key_dtype(dt):
        return "k"
    dt = np.dtype(dt)
    if dt == np.bool_:
        return "b"
    if np.issubdtype(dt, np.integer):
        return "i"
    if np.issubdtype(dt, np.floating):
        return "f"
    raise Unsupported(f"dtype {dt}")


def box(x):
    a = np.empty((), dtype=object)
    a[()] = x
    return a


def obj(shape, fill=None):
    a = np.empty(shape, dtype=object)
    if a.size:
        a.fill(fill)
    return a


def from_list(lst, shape):
    a = np.empty(len(lst), dtype=object)
    for i, x in enumerate(lst):
        a[i] = x
    return a.reshape(shape)


def conc(x, kind):
    """Canonical concrete element for a numpy/python scalar."""
    if kind == "b":
        return bool(x)
    if kind == "i":
        return int(x)
    if kind == "f":
        x = float(x)
        if math.isinf(x) or math.isnan(x):
            return x
        return Fraction(x)
    raise Unsupported("concrete key")


def from_numpy(arr):
    arr = np.asarray(arr)
    k = kind_of(arr.dtype)
    out = obj(arr.shape)
    flat = arr.reshape(-1)
    of = out.reshape(-1) if arr.shape else out
    if arr.shape == ():
        out[()] = conc(arr[()], k)
        return out
    for i in range(flat.size):
        of[i] = conc(flat[i], k)
    return out


def is_num(x):
    return isinstance(x, (int, Fraction)) and not isinstance(x, bool)


def is_special(x):
    return isinstance(x, float)


def zreal(x):
    if is_sym(x):
        if x.sort() == _I:
            return z3.ToReal(x)
        if x.sort() == _B:
            return z3.If(x, z3.RealVal(1), z3.RealVal(0))
        return x
    if isinstance(x, bool):
        return z3.RealVal(int(x))
    if isinstance(x, float):
        # +-inf / nan inside symbolic arithmetic: distinguished real constants.  Identical op sequences
        # on both sides still compare equal; inf-inf / nan effects are outside every claim (float model).
        if x != x:
            return z3.Real("NaN!")
        return z3.Real("+Inf!") if x > 0 else -z3.Real("+Inf!")
    return z3.RealVal(x)


def zint(x):
    if is_sym(x):
        return x
    return z3.IntVal(int(x))


def zbool(x):
    if is_sym(x):
        return x
    return z3.BoolVal(bool(x))


def zterm(x, kind):
    return {"f": zreal, "i": zint, "b": zbool, "k": lambda v: v}[kind](x)


def _is_numeral(t):
    return z3.is_rational_value(t) or z3.is_int_value(t)


def _numeral(t):
    if z3.is_int_value(t):
        return t.as_long()
    return Fraction(t.numerator_as_long(), t.denominator_as_long())


def lower(x):
    """z3 numeral / bool literal -> python constant."""
    if is_sym(x):
        if _is_numeral(x):
            return _numeral(x)
        if z3.is_true(x):
            return True
        if z3.is_false(x):
            return False
    return x


# --------------------------------------------------------------------------
# scalar operations (python constants fold; z3 terms build)


class Ops:
    def __init__(self, mul_mode="uf"):
        assert mul_mode in ("uf", "exact")
        self.mul_mode = mul_mode
        self.bounds = {}  # z3 term id of a symbolic Int input -> (lo, hi): declared range (shared with the interpreter)
        self._ccache = {}
        self.exact_specials = False  # opt-in: a unary op lifted over an ite keeps +-inf / nan branches as exact SpecialIte leaves
        self.fold_ct = False  # finite-domain mode: arithmetic on if-then-else trees with constant leaves stays such a tree
        self.side = []  # side axioms (draw ranges etc.)
        self._comm = set()
        self._cite = {}

    # ---- boolean
    def not_(self, a):
        if is_sym(a):
            return z3.Not(a)
        return not a

    def and_(self, a, b):
        if not is_sym(a):
            return b if a else False
        if not is_sym(b):
            return a if b else False
        return z3.And(a, b)

    def or_(self, a, b):
        if not is_sym(a):
            return True if a else b
        if not is_sym(b):
            return True if b else a
        return z3.Or(a, b)

    def xor_(self, a, b):
        if not is_sym(a):
            return self.not_(b) if a else b
        if not is_sym(b):
            return self.not_(a) if b else a
        return z3.Xor(a, b)

    def ite(self, c, a, b, kind):
        if not is_sym(c):
            return a if c else b
        if kind == "b" and isinstance(a, bool) and isinstance(b, bool):
            return a if a == b else (c if a else z3.Not(c))
        if not is_sym(a) and not is_sym(b):
            if type(a) is type(b) and a == b:
                return a
            if is_special(a) or is_special(b):
                return SpecialIte(c, a, b)
        if is_sym(a) and is_sym(b) and a.eq(b):
            return a
        if isinstance(a, SpecialIte) or isinstance(b, SpecialIte) or is_special(a) or is_special(b):
            return SpecialIte(c, a, b)
        return z3.If(c, zterm(a, kind), zterm(b, kind))

    # ---- finite-domain folding: trees If(c, x, y) whose leaves are numerals
    def _is_ct(self, x):
        x = lower(x)
        if isinstance(x, SpecialIte):
            return False
        return (not is_sym(x) and not is_special(x)) or self._const_ite(x)

    def _ct_wanted(self, a, b=0):
        if not self.fold_ct:
            return False
        a, b = lower(a), lower(b)
        return (self._const_ite(a) or self._const_ite(b)) and self._is_ct(a) and self._is_ct(b)

    def _bounded_vars(self, t, acc=None, seen=None):
        acc = set() if acc is None else acc
        seen = set() if seen is None else seen
        k = t.get_id()
        if k in seen:
            return acc
        seen.add(k)
        if k in self.bounds:
            acc.add(k)
            return acc
        for ch in t.children():
            self._bounded_vars(ch, acc, seen)
            if len(acc) > 1:
                break
        return acc

    def _cond_canon(self, c):
        """A condition that depends on exactly one range-declared integer input is the set of that input's values for
        which it holds (decided by substitution + simplification): canonical, so mutually exclusive / implied tests prune."""
        k = c.get_id()
        r = self._ccache.get(k)
        if r is None:
            canon = ("c", k)
            vs = self._bounded_vars(c)
            if len(vs) == 1:
                vid = next(iter(vs))
                lo, hi, term = self.bounds[vid]
                S, ok = set(), True
                for v in range(lo, hi + 1):
                    sv = z3.simplify(z3.substitute(c, (term, z3.IntVal(v))))
                    if z3.is_true(sv):
                        S.add(v)
                    elif not z3.is_false(sv):
                        ok = False
                        break
                if ok:
                    canon = ("v", vid, frozenset(S))
            r = self._ccache[k] = (canon, c)
        return r[0]

    def _env_lookup(self, env, c):
        """True/False if the path condition env decides c, else None"""
        cn = self._cond_canon(c)
        if cn[0] == "v":
            allowed = env.get(("v", cn[1]))
            if allowed is None:
                lo, hi, _ = self.bounds[cn[1]]
                allowed = frozenset(range(lo, hi + 1))
            if allowed <= cn[2]:
                return True
            if not (allowed & cn[2]):
                return False
            return None
        return env.get(cn)

    def _env_extend(self, env, c, val):
        env = dict(env)
        cn = self._cond_canon(c)
        if cn[0] == "v":
            allowed = env.get(("v", cn[1]))
            if allowed is None:
                lo, hi, _ = self.bounds[cn[1]]
                allowed = frozenset(range(lo, hi + 1))
            env[("v", cn[1])] = (allowed & cn[2]) if val else (allowed - cn[2])
        else:
            env[cn] = val
        return env

    def _ct2(self, f, a, b, kind_out, env=None):
        """apply f leafwise to two if-then-else trees with constant leaves; infeasible paths (w.r.t. the conditions already
        taken, incl. mutually exclusive `e == k` tests) are pruned, so the result has at most one leaf per joint value"""
        env = env or {}
        a, b = lower(a), lower(b)
        for x, first in ((a, True), (b, False)):
            if is_sym(x) and _is_ite(x):
                c = x.arg(0)
                d = self._env_lookup(env, c)
                if d is not None:
                    x2 = x.arg(1) if d else x.arg(2)
                    return self._ct2(f, x2, b, kind_out, env) if first else self._ct2(f, a, x2, kind_out, env)
                t = self._ct2(f, x.arg(1), b, kind_out, self._env_extend(env, c, True)) if first else self._ct2(f, a, x.arg(1), kind_out, self._env_extend(env, c, True))
                e = self._ct2(f, x.arg(2), b, kind_out, self._env_extend(env, c, False)) if first else self._ct2(f, a, x.arg(2), kind_out, self._env_extend(env, c, False))
                return self.ite(c, t, e, kind_out)
        return f(a, b)

    # ---- arithmetic
    def add(self, a, b, kind):
        if self._ct_wanted(a, b):
            return self._ct2(lambda x, y: self.add(x, y, kind), a, b, kind)
        if isinstance(a, SpecialIte) or isinstance(b, SpecialIte):
            return SpecialIte.lift2(self, lambda x, y: self.add(x, y, kind), a, b)
        if not is_sym(a) and not is_sym(b):
            if is_special(a) or is_special(b):
                return float(a) + float(b)
            return a + b
        if not is_sym(a) and not is_special(a) and a == 0:
            return b
        if not is_sym(b) and not is_special(b) and b == 0:
            return a
        if is_special(a):
            return a
        if is_special(b):
            return b
        return zterm(a, kind) + zterm(b, kind)

    def neg(self, a, kind):
        if isinstance(a, SpecialIte):
            return SpecialIte.lift1(self, lambda x: self.neg(x, kind), a)
        if self._ct_wanted(a):
            return self._ct2(lambda x, y: self.neg(x, kind), a, 0, kind)
        if not is_sym(a):
            return -a
        return -a

    def sub(self, a, b, kind):
        if not is_sym(a) and not is_sym(b) and not is_special(a) and not is_special(b) and not isinstance(a, SpecialIte) and not isinstance(b, SpecialIte):
            return a - b
        if is_sym(a) and is_sym(b) and a.eq(b):
            return conc(0, kind)
        return self.add(a, self.neg(b, kind), kind)

    def _const_ite(self, t):
        """t = If(c, x, y) whose leaves (recursively) are numerals."""
        if not (is_sym(t) and z3.is_app_of(t, z3.Z3_OP_ITE)):
            return False
        k = t.get_id()
        r = self._cite.get(k)
        if r is None:
            x, y = t.arg(1), t.arg(2)
            r = (_is_numeral(x) or self._const_ite(x)) and (_is_numeral(y) or self._const_ite(y))
            self._cite[k] = (r, t)  # keep t alive so the id is not reused
            return r
        return r[0]

    def mul(self, a, b, kind):
        if isinstance(a, SpecialIte) or isinstance(b, SpecialIte):
            return SpecialIte.lift2(self, lambda x, y: self.mul(x, y, kind), a, b)
        if self._ct_wanted(a, b):
            return self._ct2(lambda x, y: self.mul(x, y, kind), a, b, kind)
        a, b = lower(a), lower(b)
        if not is_sym(a) and not is_sym(b):
            if is_special(a) or is_special(b):
                return float(a) * float(b)
            return a * b
        if is_sym(a) and not is_sym(b):
            a, b = b, a
        if not is_sym(a):
            if is_special(a):
                a = zreal(a)
                f = uf("mul_f", _R, _R, _R)
                return f(a, zreal(b))
            if a == 0:
                return conc(0, kind)
            if a == 1:
                return b
            return zterm(a, kind) * zterm(b, kind)
        # both symbolic
        if self._const_ite(a):
            return z3.If(a.arg(0), zterm(self.mul(a.arg(1), b, kind), kind), zterm(self.mul(a.arg(2), b, kind), kind))
        if self._const_ite(b):
            return z3.If(b.arg(0), zterm(self.mul(a, b.arg(1), kind), kind), zterm(self.mul(a, b.arg(2), kind), kind))
        if self.mul_mode == "exact":
            return zterm(a, kind) * zterm(b, kind)
        # ite-lifting: mul(ite(c,x,y), b) = ite(c, mul(x,b), mul(y,b)) keeps the
        # abstraction canonical when one side selects before multiplying and the other after
        if _is_ite(a) and _ite_count(a) <= 6:
            return z3.If(a.arg(0), zterm(self.mul(a.arg(1), b, kind), kind), zterm(self.mul(a.arg(2), b, kind), kind))
        if _is_ite(b) and _ite_count(b) <= 6:
            return z3.If(b.arg(0), zterm(self.mul(a, b.arg(1), kind), kind), zterm(self.mul(a, b.arg(2), kind), kind))
        a, b = zterm(a, kind), zterm(b, kind)
        if a.get_id() > b.get_id():
            a, b = b, a
        s = _R if kind == "f" else _I
        f = uf("mul_" + kind, s, s, s)
        t = f(a, b)
        if not a.eq(b):
            # ground commutativity instance (argument order is syntactic; equal values may be ordered differently)
            k = (a.get_id(), b.get_id())
            if k not in self._comm:
                self._comm.add(k)
                self.side.append(t == f(b, a))
        return t

    def div(self, a, b, kind):
        a, b = lower(a), lower(b)
        if self._ct_wanted(a, b):
            return self._ct2(lambda x, y: self.div(x, y, kind), a, b, kind)
        if kind == "f":
            if not is_sym(b) and not isinstance(b, SpecialIte):
                if is_special(b):
                    if math.isinf(b) and not is_special(a) and not isinstance(a, SpecialIte):
                        return Fraction(0)
                    return uf("div_f", _R, _R, _R)(zreal(a), zreal(b))
                if b == 0:
                    if not is_sym(a) and not is_special(a):
                        return float("nan") if a == 0 else math.copysign(float("inf"), a)
                    return uf("div_f", _R, _R, _R)(zreal(a), z3.RealVal(0))
                return self.mul(Fraction(1) / Fraction(b), a, kind)
            if isinstance(a, SpecialIte) or isinstance(b, SpecialIte):
                return SpecialIte.lift2(self, lambda x, y: self.div(x, y, kind), a, b)
            if not is_sym(a) and not is_special(a) and a == 0:
                return Fraction(0)
            if self.mul_mode == "exact":
                return zreal(a) / zreal(b)
            if _is_ite(b) and _ite_count(b) <= 6:
                return z3.If(b.arg(0), zreal(self.div(a, b.arg(1), kind)), zreal(self.div(a, b.arg(2), kind)))
            if _is_ite(a) and _ite_count(a) <= 6:
                return z3.If(a.arg(0), zreal(self.div(a.arg(1), b, kind)), zreal(self.div(a.arg(2), b, kind)))
            return uf("div_f", _R, _R, _R)(zreal(a), zreal(b))
        # integer: C-style truncation
        if not is_sym(a) and not is_sym(b):
            if b == 0:
                raise Unsupported("int div by zero")
            q = abs(a) // abs(b)
            return q if (a >= 0) == (b >= 0) else -q
        if not is_sym(b) and b > 0:
            a = zint(a)
            return z3.If(a >= 0, a / b, -((-a) / b))
        raise Unsupported("int div by symbolic")

    def rem(self, a, b, kind):
        if kind == "f":
            if not is_sym(a) and not is_sym(b):
                return Fraction(math.fmod(a, b))
            return uf("rem_f", _R, _R, _R)(zreal(a), zreal(b))
        if not is_sym(a) and not is_sym(b):
            return int(math.fmod(a, b))
        if not is_sym(b) and b > 0:
            a = zint(a)
            return z3.If(a >= 0, a % b, -((-a) % b))
        raise Unsupported("int rem by symbolic")

    def cmp(self, op, a, b, kind):
        if isinstance(a, SpecialIte) or isinstance(b, SpecialIte):
            return SpecialIte.lift2(self, lambda x, y: self.cmp(op, x, y, kind), a, b, boolean=True)
        if kind in ("f", "i") and self._ct_wanted(a, b):
            return self._ct2(lambda x, y: self.cmp(op, x, y, kind), a, b, "b")
        if kind == "i" and self.bounds:
            r = self._cmp_by_bounds(op, lower(a), lower(b))
            if r is not None:
                return r
        a, b = lower(a), lower(b)
        if not is_sym(a) and not is_sym(b):
            a_, b_ = (float(a), float(b)) if (is_special(a) or is_special(b)) else (a, b)
            return {"eq": a_ == b_, "ne": a_ != b_, "lt": a_ < b_, "le": a_ <= b_, "gt": a_ > b_, "ge": a_ >= b_}[op]
        for s, o in ((a, b), (b, a)):
            if is_special(s):
                # comparison of a finite symbolic value with +-inf / nan
                if math.isnan(s):
                    return op == "ne"
                pos = s > 0
                first = s is a
                if op == "eq":
                    return False
                if op == "ne":
                    return True
                if op in ("lt", "le"):
                    return (not pos) if first else pos
                return pos if first else (not pos)
        if kind == "b":
            a, b = zbool(a), zbool(b)
            if op == "eq":
                return a == b
            if op == "ne":
                return z3.Xor(a, b)
            a, b = z3.If(a, 1, 0), z3.If(b, 1, 0)
        elif kind == "k":
            if op == "eq":
                return a == b
            if op == "ne":
                return a != b
            raise Unsupported("key ordering")
        else:
            a, b = zterm(a, kind), zterm(b, kind)
        if a.eq(b):
            return op in ("eq", "le", "ge")
        return {"eq": a == b, "ne": a != b, "lt": a < b, "le": a <= b, "gt": a > b, "ge": a >= b}[op]

    def _cmp_by_bounds(self, op, a, b):
        """decide `input op constant` from the input's declared range"""
        flip = {"lt": "gt", "gt": "lt", "le": "ge", "ge": "le", "eq": "eq", "ne": "ne"}
        if is_sym(b) and not is_sym(a):
            a, b, op = b, a, flip[op]
        if not (is_sym(a) and not is_sym(b) and a.get_id() in self.bounds):
            return None
        lo, hi = self.bounds[a.get_id()][:2]
        if op == "lt":
            return True if hi < b else (False if lo >= b else None)
        if op == "le":
            return True if hi <= b else (False if lo > b else None)
        if op == "gt":
            return True if lo > b else (False if hi <= b else None)
        if op == "ge":
            return True if lo >= b else (False if hi < b else None)
        if op == "eq":
            return False if (b < lo or b > hi) else (True if lo == hi == b else None)
        if op == "ne":
            return True if (b < lo or b > hi) else (False if lo == hi == b else None)
        return None

    def max(self, a, b, kind):
        if kind == "b":
            return self.or_(a, b)
        c = self.cmp("ge", a, b, kind)
        return self.ite(c, a, b, kind)

    def min(self, a, b, kind):
        if kind == "b":
            return self.and_(a, b)
        c = self.cmp("le", a, b, kind)
        return self.ite(c, a, b, kind)

    # ---- uninterpreted unary real functions with folding
    _FOLD = {
        "exp": math.exp, "log": math.log, "log1p": math.log1p, "expm1": math.expm1,
        "sqrt": math.sqrt, "tanh": math.tanh, "erf": math.erf, "erfc": math.erfc,
        "lgamma": math.lgamma, "sin": math.sin, "cos": math.cos, "tan": math.tan,
        "logistic": lambda x: 1 / (1 + math.exp(-x)), "rsqrt": lambda x: 1 / math.sqrt(x),
        "atan": math.atan, "asin": math.asin, "acos": math.acos, "sinh": math.sinh,
        "cosh": math.cosh, "asinh": math.asinh, "acosh": math.acosh, "atanh": math.atanh,
        "cbrt": lambda x: math.copysign(abs(x) ** (1 / 3), x), "exp2": lambda x: 2.0**x,
    }

    def unary(self, name, a):
        if isinstance(a, SpecialIte):
            return SpecialIte.lift1(self, lambda x: self.unary(name, x), a)
        a = lower(a)
        if not is_sym(a):
            f = self._FOLD.get(name)
            if f is None:
                f = _jax_unary(name)
            try:
                r = f(float(a))
            except (ValueError, ZeroDivisionError):
                if name in ("log", "log1p") and float(a) in (0.0, -1.0):
                    r = float("-inf")
                else:
                    r = float("nan")
            except OverflowError:
                r = float("inf")
            return conc(r, "f")
        a = zreal(a)
        if name == "log" and z3.is_app(a) and a.decl().name() == "exp":
            return a.arg(0)
        if self._const_ite(a) or (_is_ite(a) and _ite_count(a) <= 6):
            ra, rb = self.unary(name, a.arg(1)), self.unary(name, a.arg(2))
            if self.exact_specials and any(isinstance(r, SpecialIte) or (not is_sym(lower(r)) and is_special(lower(r))) for r in (ra, rb)):
                # e.g. log(where(out_of_support, 0, p)): keep the -inf leaf exact instead of a distinguished finite constant
                return _mk_special(self, a.arg(0), ra, rb)
            return z3.If(a.arg(0), zreal(ra), zreal(rb))
        return uf(name, _R, _R)(a)


def _is_ite(t):
    return is_sym(t) and z3.is_app_of(t, z3.Z3_OP_ITE)


def _ite_count(t, budget=8):
    """Number of ite nodes on the spine of nested ite branches (capped)."""
    if not _is_ite(t) or budget <= 0:
        return 0
    return 1 + _ite_count(t.arg(1), budget - 1) + _ite_count(t.arg(2), budget - 1)


def _jax_unary(name):
    prim = getattr(lax, name + "_p", None)
    if prim is None:
        raise Unsupported(f"no fold for {name}")
    return lambda x: float(prim.bind(jnp.float32(x)))


class SpecialIte:
    """If-then-else whose leaves include +-inf/nan (not representable in Real)."""

    def __init__(self, c, a, b):
        self.c, self.a, self.b = c, a, b
        self.n = 1 + getattr(a, "n", 0) + getattr(b, "n", 0)

    def flatten(self, kind="f"):
        """Give up exact +-inf/nan tracking: distinguished real constants (see zreal); keeps terms polynomial in size."""
        fa = self.a.flatten(kind) if isinstance(self.a, SpecialIte) else self.a
        fb = self.b.flatten(kind) if isinstance(self.b, SpecialIte) else self.b
        return z3.If(self.c, zterm(fa, kind), zterm(fb, kind))

    @staticmethod
    def lift1(ops, f, x):
        return _mk_special(ops, x.c, f(x.a), f(x.b))

    @staticmethod
    def lift2(ops, f, x, y, boolean=False):
        if isinstance(x, SpecialIte):
            return _mk_special(ops, x.c, _l2(ops, f, x.a, y, boolean), _l2(ops, f, x.b, y, boolean), boolean)
        return _mk_special(ops, y.c, _l2(ops, f, x, y.a, boolean), _l2(ops, f, x, y.b, boolean), boolean)

    def __repr__(self):
        return f"SIte({self.c}, {self.a}, {self.b})"


def _l2(ops, f, x, y, boolean):
    if isinstance(x, SpecialIte) or isinstance(y, SpecialIte):
        return SpecialIte.lift2(ops, f, x, y, boolean)
    return f(x, y)


SPECIAL_BUDGET = 24


def _mk_special(ops, c, a, b, boolean=False):
    if boolean:
        return ops.ite(c, a, b, "b")
    r = ops.ite(c, a, b, "f")
    if isinstance(r, SpecialIte) and r.n > SPECIAL_BUDGET:
        return r.flatten("f")
    return r


# --------------------------------------------------------------------------
# the interpreter


def ew(f, *arrs):
    """Elementwise map over broadcast object arrays -> object array."""
    bs = np.broadcast_arrays(*arrs)
    out = obj(bs[0].shape)
    if out.shape == ():
        out[()] = f(*[b[()] for b in bs])
        return out
    flats = [b.reshape(-1) for b in bs]
    of = out.reshape(-1)
    for i in range(of.size):
        of[i] = f(*[fl[i] for fl in flats])
    return out


class CKey:
    """A concrete jax PRNG key (self-validation mode: real threefry is used)."""

    def __init__(self, k):
        self.k = k

    def __repr__(self):
        return f"CKey({jax.random.key_data(self.k)})"


def _ckeys(a):
    return a.size > 0 and isinstance(a.reshape(-1)[0], CKey)


def _ck_arr(a):
    flat = [x.k for x in a.reshape(-1)]
    return jnp.stack(flat).reshape(a.shape) if a.shape else flat[0]


def _ck_obj(karr):
    out = obj(karr.shape)
    for idx in np.ndindex(*karr.shape):
        out[idx] = CKey(karr[idx])
    return out


def _mk_cmp(op):
    def h(self, eqn, ins):
        k = self._kin(eqn)
        return [ew(lambda a, b: self.ops.cmp(op, a, b, k), *ins)]

    return h


def _mk_logic(opname):
    def h(self, eqn, ins):
        if self._k(eqn) != "b":
            return self.bitwise(eqn, ins)
        return [ew(getattr(self.ops, opname), *ins)]

    return h


class DrawSite:
    def __init__(self, kind, key, index, params, pc):
        self.kind, self.key, self.index, self.params, self.pc = kind, key, index, params, pc


class Interp:
    def __init__(self, mul_mode="uf", while_bound=8, concrete_rng=False, fold_ct=False, exact_specials=False):
        self.ops = Ops(mul_mode)
        self.ops.fold_ct = fold_ct
        self.ops.exact_specials = exact_specials
        self.bounds: dict = self.ops.bounds  # z3 term id of a symbolic Int input -> (lo, hi) inclusive, from the obligation's declared ranges
        self.while_bound = while_bound
        self.draws: list[DrawSite] = []
        self.categoricals: list = []  # (key, [logit terms], path condition) of every Gumbel-max categorical draw
        self.pc: list = []  # path condition stack
        self.functions: set[str] = set()
        self.n_eqns = 0
        self.prims: set[str] = set()
        self.unwinding: list = []  # unwinding assertions (must be unsat-able)
        self.uf_fallbacks: set[str] = set()
        self.side: list = self.ops.side
        self.concrete_rng = concrete_rng
        self._seen_src = set()
        self._root_ids = itertools.count()

    # ---- helpers
    def fresh_key(self):
        return Key.root(z3.IntVal(next(self._root_ids)))

    def _record_src(self, eqn):
        try:
            tb = eqn.source_info.traceback
            if tb is None:
                return
            k = id(tb)
            if k in self._seen_src:
                return
            self._seen_src.add(k)
            for fr in tb.frames:
                fn = fr.file_name
                if fn.startswith(REPO_SRC):
                    self.functions.add(fn[len(REPO_ROOT) + 1:] + ":" + fr.function_name)
        except Exception:
            pass

    def const(self, c):
        if hasattr(c, "dtype") and is_key_dtype(c.dtype) and self.concrete_rng:
            return _ck_obj(c)
        if hasattr(c, "dtype") and is_key_dtype(c.dtype):
            data = np.asarray(jax.random.key_data(c))
            out = obj(c.shape)
            for idx in np.ndindex(*c.shape):
                out[idx] = Key.wrap(z3.IntVal(int(data[idx + (0,)])), z3.IntVal(int(data[idx + (1,)])))
            return out
        return from_numpy(np.asarray(c))

    def eval_closed(self, cj, args):
        consts = [self.const(c) for c in cj.consts]
        return self.eval_jaxpr(cj.jaxpr, consts, args)

    def eval_jaxpr(self, jaxpr, consts, args):
        env = {}

        def read(v):
            if isinstance(v, jax.core.Literal):
                return self.const(np.asarray(v.val, dtype=v.aval.dtype)) if not is_key_dtype(v.aval.dtype) else self.const(v.val)
            return env[v]

        assert len(jaxpr.constvars) == len(consts), (len(jaxpr.constvars), len(consts))
        assert len(jaxpr.invars) == len(args), (len(jaxpr.invars), len(args))
        for v, c in zip(jaxpr.constvars, consts):
            env[v] = c
        for v, a in zip(jaxpr.invars, args):
            assert tuple(a.shape) == tuple(v.aval.shape), (a.shape, v.aval)
            env[v] = a
        for eqn in jaxpr.eqns:
            self.n_eqns += 1
            self._record_src(eqn)
            ins = [read(v) for v in eqn.invars]
            outs = self.eval_eqn(eqn, ins)
            assert len(outs) == len(eqn.outvars), (eqn.primitive.name, len(outs), len(eqn.outvars))
            for v, o in zip(eqn.outvars, outs):
                if not isinstance(o, np.ndarray) or o.dtype != object:
                    raise AssertionError(f"{eqn.primitive.name}: bad output {type(o)}")
                if tuple(o.shape) != tuple(v.aval.shape):
                    raise AssertionError(f"{eqn.primitive.name}: shape {o.shape} vs {v.aval.shape}")
                if not isinstance(v, jax.core.DropVar):
                    env[v] = o
        return [read(v) for v in jaxpr.outvars]

    # ---- equation dispatch
    def eval_eqn(self, eqn, ins):
        name = eqn.primitive.name
        self.prims.add(name)
        h = getattr(self, "p_" + name.replace("-", "_"), None)
        if h is not None:
            return h(eqn, ins)
        if name in _UNARY_UF:
            return [ew(lambda x: self.ops.unary(name, x), ins[0])]
        if name in _STRUCTURAL:
            return self.structural(eqn, ins)
        if callable(eqn.params.get("impl")) and "num_consts" in eqn.params:
            return self.initial_style(eqn, ins)
        return self.generic_uf(eqn, ins)

    def initial_style(self, eqn, ins):
        """GenJAX InitialStylePrimitive outside its interpreter: evaluates to its wrapped function (params['impl'])."""
        impl, params = eqn.params["impl"], eqn.params
        avals = [jax.ShapeDtypeStruct(v.aval.shape, v.aval.dtype) for v in eqn.invars]
        cj = jax.make_jaxpr(lambda *a: impl(*a, **params))(*avals)
        return self.eval_closed(cj, ins)

    # ---- generic UF fallback (sound for equivalences: same code => same symbol)
    def generic_uf(self, eqn, ins, tag=None):
        name = tag or eqn.primitive.name
        ph = hashlib.sha1(repr(sorted((k, str(v)) for k, v in eqn.params.items())).encode()).hexdigest()[:8]
        self.uf_fallbacks.add(name)
        flat = []
        for a, v in zip(ins, eqn.invars):
            k = kind_of(v.aval.dtype)
            for x in a.reshape(-1):
                if isinstance(x, SpecialIte):
                    x = x.flatten(k)
                try:
                    flat.append(zterm(x, k))
                except z3.Z3Exception as e:
                    raise Unsupported(f"generic_uf argument {x!r} of kind {k}: {e}")
        if all(_is_ground_const(t) for t in flat) and not tag and not any(is_key_dtype(v.aval.dtype) for v in eqn.invars):
            return self.concrete_bind(eqn, ins)
        sorts = [t.sort() for t in flat]
        outs = []
        for oi, ov in enumerate(eqn.outvars):
            k = kind_of(ov.aval.dtype)
            osort = {"f": _R, "i": _I, "b": _B, "k": Key}[k]
            o = obj(ov.aval.shape)
            of = o.reshape(-1) if o.shape else o
            n = o.size
            for j in range(n):
                f = uf(f"{name}_{ph}_o{oi}_{j}", *sorts, osort)
                t = f(*flat)
                if o.shape:
                    of[j] = t
                else:
                    o[()] = t
            outs.append(o)
        return outs

    def concrete_bind(self, eqn, ins):
        """All inputs concrete: run the real primitive."""
        args = []
        for a, v in zip(ins, eqn.invars):
            args.append(to_numpy(a, v.aval.dtype))
        res = eqn.primitive.bind(*[jnp.asarray(a) for a in args], **eqn.params)
        if not eqn.primitive.multiple_results:
            res = [res]
        return [from_numpy(np.asarray(r)) for r in res]

    # ---- structural primitives through position arrays
    def structural(self, eqn, ins, override_ins=None):
        offs, pos_args, pool = 0, [], []
        for a in ins:
            n = a.size
            pos_args.append(jnp.asarray(np.arange(offs, offs + n, dtype=np.int32).reshape(a.shape)))
            pool.append(a.reshape(-1))
            offs += n
        pool = np.concatenate(pool) if pool else np.empty(0, dtype=object)
        ck = (eqn.primitive.name, repr(sorted((k, str(v)) for k, v in eqn.params.items())), tuple(a.shape for a in ins))
        res = _STRUCT_CACHE.get(ck)
        if res is None:
            with jax.ensure_compile_time_eval():
                res = eqn.primitive.bind(*pos_args, **eqn.params)
            if not eqn.primitive.multiple_results:
                res = [res]
            res = _STRUCT_CACHE[ck] = [np.asarray(r) for r in res]
        outs = []
        for r in res:
            o = obj(r.shape)
            if r.shape == ():
                o[()] = pool[int(r)]
            else:
                o.reshape(-1)[:] = pool[r.reshape(-1)]
            outs.append(o)
        return outs

    # ---- elementwise arithmetic
    def _k(self, eqn, i=0):
        return kind_of(eqn.outvars[i].aval.dtype)

    def _kin(self, eqn, i=0):
        return kind_of(eqn.invars[i].aval.dtype)

    def p_add(self, eqn, ins):
        k = self._k(eqn)
        return [ew(lambda a, b: self.ops.add(a, b, k), *ins)]

    p_add_any = p_add

    def p_sub(self, eqn, ins):
        k = self._k(eqn)
        return [ew(lambda a, b: self.ops.sub(a, b, k), *ins)]

    def p_mul(self, eqn, ins):
        k = self._k(eqn)
        if k == "b":
            return [ew(self.ops.and_, *ins)]
        return [ew(lambda a, b: self.ops.mul(a, b, k), *ins)]

    def p_neg(self, eqn, ins):
        k = self._k(eqn)
        return [ew(lambda a: self.ops.neg(a, k), ins[0])]

    def p_div(self, eqn, ins):
        k = self._k(eqn)
        return [ew(lambda a, b: self.ops.div(a, b, k), *ins)]

    def p_rem(self, eqn, ins):
        k = self._k(eqn)
        return [ew(lambda a, b: self.ops.rem(a, b, k), *ins)]

    def p_square(self, eqn, ins):
        k = self._k(eqn)
        return [ew(lambda a: self.ops.mul(a, a, k), ins[0])]

    def p_integer_pow(self, eqn, ins):
        k = self._k(eqn)
        y = eqn.params["y"]

        def f(a):
            if y == 0:
                return conc(1, k)
            r = a
            for _ in range(abs(y) - 1):
                r = self.ops.mul(r, a, k)
            if y < 0:
                r = self.ops.div(conc(1, k), r, k)
            return r

        return [ew(f, ins[0])]

    def p_pow(self, eqn, ins):
        def f(a, b):
            a, b = lower(a), lower(b)
            if not is_sym(a) and not is_sym(b):
                return conc(float(a) ** float(b), "f")
            if not is_sym(b) and b == int(b) and abs(b) <= 4:
                y = int(b)
                if y == 0:
                    return Fraction(1)
                r = a
                for _ in range(abs(y) - 1):
                    r = self.ops.mul(r, a, "f")
                return r if y > 0 else self.ops.div(Fraction(1), r, "f")
            if is_sym(b) and _is_ite(b) and _ite_count(b) <= 4:  # e.g. (-1) ** where(flag, 1, 0)
                k = self._k(eqn)
                return self.ops.ite(b.arg(0), f(a, b.arg(1)), f(a, b.arg(2)), k)
            return uf("pow", _R, _R, _R)(zreal(a), zreal(b))

        return [ew(f, *ins)]

    def p_max(self, eqn, ins):
        k = self._k(eqn)
        return [ew(lambda a, b: self.ops.max(a, b, k), *ins)]

    def p_min(self, eqn, ins):
        k = self._k(eqn)
        return [ew(lambda a, b: self.ops.min(a, b, k), *ins)]

    def p_abs(self, eqn, ins):
        k = self._k(eqn)
        return [ew(lambda a: self.ops.ite(self.ops.cmp("ge", a, conc(0, k), k), a, self.ops.neg(a, k), k), ins[0])]

    def p_sign(self, eqn, ins):
        k = self._k(eqn)
        z, o, m = conc(0, k), conc(1, k), conc(-1, k)
        return [ew(lambda a: self.ops.ite(self.ops.cmp("gt", a, z, k), o, self.ops.ite(self.ops.cmp("lt", a, z, k), m, z, k), k), ins[0])]

    def p_clamp(self, eqn, ins):
        k = self._k(eqn)
        lo, x, hi = ins
        return [ew(lambda l, v, h: self.ops.min(self.ops.max(v, l, k), h, k), lo, x, hi)]

    p_eq, p_ne, p_lt, p_le, p_gt, p_ge = [_mk_cmp(o) for o in ("eq", "ne", "lt", "le", "gt", "ge")]
    p_and, p_or, p_xor = _mk_logic("and_"), _mk_logic("or_"), _mk_logic("xor_")

    def p_not(self, eqn, ins):
        if self._k(eqn) != "b":
            return self.bitwise(eqn, ins)
        return [ew(self.ops.not_, ins[0])]

    def bitwise(self, eqn, ins):
        # integer bit tricks: concrete -> real primitive; symbolic -> per-element UF
        if all(not is_sym(x) for a in ins for x in a.reshape(-1)):
            return self.concrete_bind(eqn, ins)
        name = "bit_" + eqn.primitive.name
        n = len(ins)
        f = uf(name, *([_I] * n), _I)
        dt = eqn.invars[0].aval.dtype

        def elem(*xs):
            xs = [lower(x) for x in xs]
            if all(not is_sym(x) for x in xs):
                r = eqn.primitive.bind(*[jnp.asarray(int(x), dt) for x in xs], **eqn.params)
                return int(r)
            for i, x in enumerate(xs):  # distribute over an if-then-else of constants (e.g. parity of where(flag, 1, 0))
                if is_sym(x) and self.ops._const_ite(x):
                    a = elem(*(xs[:i] + [x.arg(1)] + xs[i + 1:]))
                    b = elem(*(xs[:i] + [x.arg(2)] + xs[i + 1:]))
                    return self.ops.ite(x.arg(0), a, b, "i")
            return f(*[zint(x) for x in xs])

        return [ew(elem, *ins)]

    p_shift_right_logical = bitwise
    p_shift_left = bitwise
    p_shift_right_arithmetic = bitwise
    p_population_count = bitwise

    def p_bitcast_convert_type(self, eqn, ins):
        if all(not is_sym(x) for x in ins[0].reshape(-1)):
            return self.concrete_bind(eqn, ins)
        ko = self._k(eqn)
        ki = self._kin(eqn)
        f = uf(f"bitcast_{ki}{ko}", {"f": _R, "i": _I}[ki], {"f": _R, "i": _I}[ko])
        return [ew(lambda x: f(zterm(x, ki)), ins[0])]

    def p_select_n(self, eqn, ins):
        k = self._k(eqn)
        pk = self._kin(eqn)
        pred, cases = ins[0], ins[1:]
        if pk == "b":
            assert len(cases) == 2
            return [ew(lambda p, a, b: self.ops.ite(p, b, a, k), pred, *cases)]

        def f(p, *cs):
            r = cs[-1]
            for i in range(len(cs) - 2, -1, -1):
                r = self.ops.ite(self.ops.cmp("eq", p, i, "i"), cs[i], r, k)
            return r

        return [ew(f, pred, *cases)]

    def p_convert_element_type(self, eqn, ins):
        ki, ko = self._kin(eqn), self._k(eqn)
        nd = eqn.params["new_dtype"]

        def f(x):
            if isinstance(x, SpecialIte):
                return SpecialIte.lift1(self.ops, f, x)
            x = lower(x)
            if ki == ko:
                return x
            if not is_sym(x):
                if is_special(x):
                    if ko == "b":
                        return True
                    raise Unsupported("special -> int")
                if ko == "f":
                    return Fraction(int(x)) if ki == "b" else Fraction(x)
                if ko == "i":
                    return int(x) if ki == "b" else int(x)  # int() truncates toward zero
                return x != 0
            if ko == "f":
                return zreal(x)
            if ko == "i":
                if ki == "b":
                    return z3.If(x, z3.IntVal(1), z3.IntVal(0))
                fl = z3.ToInt(x)
                return z3.If(x >= 0, fl, -z3.ToInt(-x))
            if ko == "b":
                return x != (z3.RealVal(0) if ki == "f" else z3.IntVal(0))
            raise Unsupported(f"convert {ki}->{ko}")

        del nd
        return [ew(f, ins[0])]

    def _identity(self, eqn, ins):
        return [ins[0]]

    p_copy = p_copy_p = p_device_put = p_stop_gradient = p_reduce_precision = p_optimization_barrier = _identity
    p_real = _identity

    def p_is_finite(self, eqn, ins):
        def f(x):
            if isinstance(x, SpecialIte):
                return SpecialIte.lift1(self.ops, f, x) if False else self.ops.ite(x.c, f(x.a), f(x.b), "b")
            if is_special(x):
                return False
            return True  # float model: symbolic reals are finite

        return [ew(f, ins[0])]

    def p_floor(self, eqn, ins):
        def f(x):
            x = lower(x)
            if not is_sym(x):
                return Fraction(math.floor(x))
            return z3.ToReal(z3.ToInt(x))

        return [ew(f, ins[0])]

    def p_ceil(self, eqn, ins):
        def f(x):
            x = lower(x)
            if not is_sym(x):
                return Fraction(math.ceil(x))
            return -z3.ToReal(z3.ToInt(-x))

        return [ew(f, ins[0])]

    def p_round(self, eqn, ins):
        if all(not is_sym(x) for x in ins[0].reshape(-1)):
            return self.concrete_bind(eqn, ins)
        return self.generic_uf(eqn, ins)

    def p_exp(self, eqn, ins):
        return [ew(lambda x: self.ops.unary("exp", x), ins[0])]

    # ---- reductions
    def _reduce(self, eqn, ins, f2, init=None):
        axes = tuple(eqn.params["axes"])
        a = ins[0]
        if a.size == 0 or any(a.shape[ax] == 0 for ax in axes):
            oshape = tuple(s for i, s in enumerate(a.shape) if i not in axes)
            return [obj(oshape, init)]
        keep = [i for i in range(a.ndim) if i not in axes]
        t = np.transpose(a, keep + list(axes)) if a.ndim else a
        oshape = tuple(a.shape[i] for i in keep)
        t = t.reshape(oshape + (-1,))
        out = obj(oshape)
        for idx in np.ndindex(*oshape):
            row = t[idx]
            r = row[0]
            for j in range(1, row.shape[0]):
                r = f2(r, row[j])
            out[idx] = r
        return [out]

    def p_reduce_sum(self, eqn, ins):
        k = self._k(eqn)
        return self._reduce(eqn, ins, lambda a, b: self.ops.add(a, b, k), conc(0, k))

    def p_reduce_max(self, eqn, ins):
        k = self._k(eqn)
        return self._reduce(eqn, ins, lambda a, b: self.ops.max(a, b, k), float("-inf") if k == "f" else None)

    def p_reduce_min(self, eqn, ins):
        k = self._k(eqn)
        return self._reduce(eqn, ins, lambda a, b: self.ops.min(a, b, k), float("inf") if k == "f" else None)

    def p_reduce_prod(self, eqn, ins):
        k = self._k(eqn)
        return self._reduce(eqn, ins, lambda a, b: self.ops.mul(a, b, k), conc(1, k))

    def p_reduce_and(self, eqn, ins):
        return self._reduce(eqn, ins, self.ops.and_, True)

    def p_reduce_or(self, eqn, ins):
        return self._reduce(eqn, ins, self.ops.or_, False)

    def _arg_reduce(self, eqn, ins, op):
        (axis,) = eqn.params["axes"]
        a = ins[0]
        k = self._kin(eqn)
        t = np.moveaxis(a, axis, -1)
        out = obj(t.shape[:-1])
        for idx in np.ndindex(*t.shape[:-1]):
            row = t[idx]
            if op == "gt":
                self._record_categorical(row)
            best, bi = row[0], 0
            for j in range(1, row.shape[0]):
                c = self.ops.cmp(op, row[j], best, k)  # strict: first occurrence wins
                best = self.ops.ite(c, row[j], best, k)
                bi = self.ops.ite(c, j, bi, "i")
            out[idx] = bi
        return [out]

    def _record_categorical(self, row):
        """argmax_k(logits_k + gumbel(key, k)) is a categorical draw (Gumbel-max, as jax.random.categorical does it):
        remember (key, logits, path condition) so that obligations can inspect the logits of every categorical site."""
        logits, key = [], None
        for j, e in enumerate(row):
            e = lower(e)
            if not (is_sym(e) and z3.is_app_of(e, z3.Z3_OP_ADD) and e.num_args() == 2):
                return
            a, b = e.arg(0), e.arg(1)
            g, l = (a, b) if (z3.is_app(a) and a.decl().name() == "draw_gumbel") else (b, a)
            if not (z3.is_app(g) and g.decl().name() == "draw_gumbel"):
                return
            if key is None:
                key = g.arg(0)
            elif not key.eq(g.arg(0)):
                return
            logits.append(l)
        self.categoricals.append((key, logits, self._pc()))

    def p_argmax(self, eqn, ins):
        return self._arg_reduce(eqn, ins, "gt")

    def p_argmin(self, eqn, ins):
        return self._arg_reduce(eqn, ins, "lt")

    def _cum(self, eqn, ins, f2):
        axis, rev = eqn.params["axis"], eqn.params.get("reverse", False)
        a = np.moveaxis(ins[0], axis, -1)
        out = obj(a.shape)
        for idx in np.ndindex(*a.shape[:-1]):
            row = a[idx]
            n = row.shape[0]
            order = range(n - 1, -1, -1) if rev else range(n)
            acc = None
            for j in order:
                acc = row[j] if acc is None else f2(acc, row[j])
                out[idx + (j,)] = acc
        return [np.moveaxis(out, -1, axis)]

    def p_cumsum(self, eqn, ins):
        k = self._k(eqn)
        return self._cum(eqn, ins, lambda a, b: self.ops.add(a, b, k))

    def p_cumprod(self, eqn, ins):
        k = self._k(eqn)
        return self._cum(eqn, ins, lambda a, b: self.ops.mul(a, b, k))

    def p_cummax(self, eqn, ins):
        k = self._k(eqn)
        return self._cum(eqn, ins, lambda a, b: self.ops.max(a, b, k))

    def p_cummin(self, eqn, ins):
        k = self._k(eqn)
        return self._cum(eqn, ins, lambda a, b: self.ops.min(a, b, k))

    def p_dot_general(self, eqn, ins):
        (lc, rc), (lb, rb) = eqn.params["dimension_numbers"]
        a, b = ins
        k = self._k(eqn)
        lfree = [i for i in range(a.ndim) if i not in lc and i not in lb]
        rfree = [i for i in range(b.ndim) if i not in rc and i not in rb]
        at = np.transpose(a, list(lb) + lfree + list(lc))
        bt = np.transpose(b, list(rb) + rfree + list(rc))
        bshape = tuple(a.shape[i] for i in lb)
        lf = tuple(a.shape[i] for i in lfree)
        rf = tuple(b.shape[i] for i in rfree)
        cs = tuple(a.shape[i] for i in lc)
        out = obj(bshape + lf + rf)
        for bi in np.ndindex(*bshape):
            for li in np.ndindex(*lf):
                for ri in np.ndindex(*rf):
                    acc = conc(0, k)
                    for ci in np.ndindex(*cs):
                        acc = self.ops.add(acc, self.ops.mul(at[bi + li + ci], bt[bi + ri + ci], k), k)
                    out[bi + li + ri] = acc
        return [out]

    def p_iota(self, eqn, ins):
        return self.concrete_bind(eqn, ins)

    # ---- index-dependent structural primitives
    def _sym_index_merge(self, idx_elems, dims, fn, out_kinds):
        """idx_elems: list of scalar index elements (python int or z3 Int).
        dims: per element, the size n of the indexed dimension.
        fn(concrete_indices) -> list of object arrays.  Merge over the
        representative values -1 (all negatives), 0..n-1, n (all >= n)."""
        sym = [i for i, e in enumerate(idx_elems) if is_sym(lower(e))]
        base = [lower(e) for e in idx_elems]
        if not sym:
            return fn([int(e) for e in base])
        if len(sym) > 3:
            raise Unsupported(f"{len(sym)} symbolic indices in one gather/scatter")
        reps = []
        for i in sym:
            r = list(range(-1, dims[i] + 1))
            bd = self.bounds.get(base[i].get_id()) if is_sym(base[i]) else None
            if bd is not None:  # declared range of this input: only its feasible representatives
                r = [v for v in r if (v == -1 and bd[0] < 0) or (v == dims[i] and bd[1] >= dims[i]) or (0 <= v < dims[i] and bd[0] <= v <= bd[1])]
            reps.append(r)
        def cond_of(i, v):
            e = base[i]
            if v == -1:
                return e <= -1
            if v == dims[i]:
                return e >= dims[i]
            return e == v

        def build(level, cur):
            """nested if-then-else, one symbolic index per level (conditions stay simple `e == v` tests)"""
            if level == len(sym):
                return fn([int(c) for c in cur])
            i = sym[level]
            result = None
            for v in reversed(reps[level]):
                cur2 = list(cur)
                cur2[i] = v
                vals = build(level + 1, cur2)
                if result is None:
                    result = vals
                else:
                    c = cond_of(i, v)
                    result = [ew(lambda a, b, kk=kk, c=c: self.ops.ite(c, a, b, kk), vv, r) for vv, r, kk in zip(vals, result, out_kinds)]
            return result

        return build(0, list(base))

    def _with_indices(self, eqn, ins, index_slots, dims_of):
        """Generic: operands at index_slots hold indices; others are data."""
        idx_elems, where = [], []
        for s in index_slots:
            for j, e in enumerate(ins[s].reshape(-1)):
                idx_elems.append(e)
                where.append((s, j))
        dims = dims_of(where)
        out_kinds = [kind_of(v.aval.dtype) for v in eqn.outvars]
        data_slots = [i for i in range(len(ins)) if i not in index_slots]

        def fn(cidx):
            # bind the real primitive: data operands -> positions, index operands concrete
            offs, pool, args = 0, [], [None] * len(ins)
            for s in data_slots:
                a = ins[s]
                args[s] = jnp.asarray(np.arange(offs, offs + a.size, dtype=np.int32).reshape(a.shape))
                pool.append(a.reshape(-1))
                offs += a.size
            per = {}
            for (s, j), v in zip(where, cidx):
                per.setdefault(s, {})[j] = v
            for s in index_slots:
                dt = eqn.invars[s].aval.dtype
                arr = np.zeros(ins[s].size, dtype=dt)
                for j, v in per.get(s, {}).items():
                    arr[j] = v
                args[s] = jnp.asarray(arr.reshape(ins[s].shape))
            poolc = np.concatenate(pool)
            with jax.ensure_compile_time_eval():
                res = eqn.primitive.bind(*args, **eqn.params)
            if not eqn.primitive.multiple_results:
                res = [res]
            outs = []
            for r, kk in zip(res, out_kinds):
                r = np.asarray(r)
                o = obj(r.shape)
                rf = r.reshape(-1)
                of = o.reshape(-1) if r.shape else o
                for t in range(rf.size):
                    p = int(rf[t])
                    val = poolc[p] if 0 <= p < offs else _fill_value(kk)
                    if r.shape:
                        of[t] = val
                    else:
                        o[()] = val
                outs.append(o)
            return outs

        return self._sym_index_merge(idx_elems, dims, fn, out_kinds)

    def p_dynamic_slice(self, eqn, ins):
        shape = ins[0].shape
        return self._with_indices(eqn, ins, list(range(1, len(ins))), lambda where: [shape[s - 1] for s, _ in where])

    def p_dynamic_update_slice(self, eqn, ins):
        shape = ins[0].shape
        return self._with_indices(eqn, ins, list(range(2, len(ins))), lambda where: [shape[s - 2] for s, _ in where])

    def p_gather(self, eqn, ins):
        dn = eqn.params["dimension_numbers"]
        shape = ins[0].shape
        sim = dn.start_index_map
        nidx = len(sim)
        idx = ins[1]
        nsym = sum(1 for e in idx.reshape(-1) if is_sym(lower(e)))
        if nsym <= 2:
            return self._with_indices(eqn, ins, [1], lambda where: [shape[sim[j % nidx]] for _, j in where])
        return self._gather_rowwise(eqn, ins)

    def _gather_rowwise(self, eqn, ins):
        """Each output element depends on one index row: evaluate the real gather with every row set to the
        same representative index vector, then select per output element on its own row's symbolic indices."""
        dn = eqn.params["dimension_numbers"]
        operand, idx = ins
        shape = operand.shape
        sim = dn.start_index_map
        d = idx.shape[-1]
        assert d == len(sim)
        kk = self._k(eqn)
        oshape = tuple(eqn.outvars[0].aval.shape)
        offset_dims = set(dn.offset_dims)
        batch_out_dims = [i for i in range(len(oshape)) if i not in offset_dims]
        rows_shape = idx.shape[:-1]
        assert tuple(oshape[i] for i in batch_out_dims) == tuple(rows_shape), (oshape, rows_shape, dn)
        pos = jnp.asarray(np.arange(operand.size, dtype=np.int32).reshape(shape))
        pool = operand.reshape(-1)
        reps = [list(range(-1, shape[sim[c]] + 1)) for c in range(d)]
        table = {}
        for combo in itertools.product(*reps):
            ci = jnp.asarray(np.broadcast_to(np.array(combo, dtype=eqn.invars[1].aval.dtype), idx.shape))
            with jax.ensure_compile_time_eval():
                table[combo] = np.asarray(eqn.primitive.bind(pos, ci, **eqn.params))
        out = obj(oshape)
        for o in np.ndindex(*oshape):
            row = tuple(o[i] for i in batch_out_dims)
            comps = [lower(idx[row + (c,)]) for c in range(d)]
            result = None
            for combo in reversed(list(itertools.product(*reps))):
                conds = []
                skip = False
                for c, v in enumerate(combo):
                    e = comps[c]
                    n = shape[sim[c]]
                    if not is_sym(e):
                        rep = -1 if e <= -1 else (n if e >= n else int(e))
                        if rep != v:
                            skip = True
                            break
                        continue
                    conds.append(e <= -1 if v == -1 else (e >= n if v == n else e == v))
                if skip:
                    continue
                p = int(table[combo][o])
                val = pool[p] if 0 <= p < operand.size else _fill_value(kk)
                if result is None or not conds:
                    result = val
                else:
                    result = self.ops.ite(z3.And(*conds) if len(conds) > 1 else conds[0], val, result, kk)
            out[o] = result
        return [out]

    def p_scatter(self, eqn, ins):
        dn = eqn.params["dimension_numbers"]
        shape = ins[0].shape
        sdod = dn.scatter_dims_to_operand_dims
        nidx = len(sdod)
        return self._with_indices(eqn, ins, [1], lambda where: [shape[sdod[j % nidx]] for _, j in where])

    def p_scatter_add(self, eqn, ins):
        operand, indices, updates = ins
        dn = eqn.params["dimension_numbers"]
        shape = operand.shape
        sdod = dn.scatter_dims_to_operand_dims
        nidx = len(sdod)
        k = self._k(eqn)
        idx_elems = list(indices.reshape(-1))
        dims = [shape[sdod[j % nidx]] for j in range(len(idx_elems))]
        m = updates.size
        uflat = updates.reshape(-1)

        def fn(cidx):
            idx = jnp.asarray(np.array(cidx, dtype=eqn.invars[1].aval.dtype).reshape(indices.shape))
            onehots = jnp.asarray(np.eye(m, dtype=np.int32).reshape((m,) + updates.shape))
            zeros = jnp.zeros(shape, dtype=jnp.int32)
            with jax.ensure_compile_time_eval():
                land = jax.vmap(lambda u: eqn.primitive.bind(zeros, idx, u, **eqn.params))(onehots)
            land = np.asarray(land)  # (m,)+shape, count of landings
            out = obj(shape)
            for p in np.ndindex(*shape):
                acc = operand[p]
                for u in range(m):
                    c = int(land[(u,) + p])
                    for _ in range(c):
                        acc = self.ops.add(acc, uflat[u], k)
                out[p] = acc
            return [out]

        return self._sym_index_merge(idx_elems, dims, fn, [k])

    p_scatter_add_p = p_scatter_add

    # ---- control flow
    def _inline(self, cj, ins):
        if hasattr(cj, "consts"):
            return self.eval_closed(cj, ins)
        return self.eval_jaxpr(cj, [], ins)

    def p_pjit(self, eqn, ins):
        name = eqn.params["name"]
        stub = _SAMPLER_STUBS.get(name)
        if stub is not None and not self.concrete_rng:
            return stub(self, eqn, ins)
        try:
            return self._inline(eqn.params["jaxpr"], ins)
        except Unsupported:
            if any(is_key_dtype(v.aval.dtype) for v in eqn.invars):
                return self.opaque_sampler(eqn, ins, name)
            raise

    def opaque_sampler(self, eqn, ins, name):
        """A sampler whose body cannot be encoded (e.g. rejection loop): an
        uninterpreted function of (key, parameters), recorded as a draw site."""
        cj = eqn.params["jaxpr"]
        tag = "sampler_" + name + "_" + hashlib.sha1(str(cj).encode()).hexdigest()[:8]
        outs = self.generic_uf(eqn, ins, tag=tag)
        for a, v in zip(ins, eqn.invars):
            if is_key_dtype(v.aval.dtype):
                for kk in a.reshape(-1):
                    self.draws.append(DrawSite(tag, kk, 0, None, self._pc()))
        return outs

    def p_closed_call(self, eqn, ins):
        return self._inline(eqn.params["call_jaxpr"], ins)

    p_core_call = p_closed_call
    p_remat = lambda self, eqn, ins: self._inline(eqn.params["jaxpr"], ins)  # noqa: E731
    p_checkpoint = p_remat

    def p_custom_jvp_call(self, eqn, ins):
        return self._inline(eqn.params["call_jaxpr"], ins)

    def p_custom_vjp_call(self, eqn, ins):
        cj = eqn.params.get("call_jaxpr") or eqn.params.get("fun_jaxpr")
        return self._inline(cj, ins)

    p_custom_vjp_call_jaxpr = p_custom_vjp_call

    def p_custom_lin(self, eqn, ins):
        raise Unsupported("custom_lin")

    def _pc(self):
        return list(self.pc)

    def p_cond(self, eqn, ins):
        branches = eqn.params["branches"]
        idx = lower(ins[0][()])
        ops = ins[1:]
        ik = self._kin(eqn)
        if ik == "b":
            idx = self.ops.ite(idx, 1, 0, "i") if is_sym(idx) else int(idx)
        n = len(branches)
        if not is_sym(idx):
            i = min(max(int(idx), 0), n - 1)
            return self._inline(branches[i], ops)
        kinds = [kind_of(v.aval.dtype) for v in eqn.outvars]
        result = None
        for i in range(n - 1, -1, -1):
            if n == 1:
                c = True
            elif i == 0:
                c = idx <= 0
            elif i == n - 1:
                c = idx >= n - 1
            else:
                c = idx == i
            self.pc.append(c)
            try:
                vals = self._inline(branches[i], ops)
            finally:
                self.pc.pop()
            if result is None:
                result = vals
            else:
                result = [ew(lambda a, b, kk=kk: self.ops.ite(c, a, b, kk), v, r) for v, r, kk in zip(vals, result, kinds)]
        return result

    def _library_sampler_loop(self, eqn):
        """A scan/while that consumes PRNG keys and was written inside tensorflow_probability (its own
        rejection / inversion samplers, e.g. a 200-step scan in Poisson): part of the environment, not of GenJAX."""
        if self.concrete_rng:
            return False
        return self._from_tfp(eqn) and _consumes_keys(eqn)

    def _from_tfp(self, eqn):
        """Was this loop written inside a library (tensorflow_probability excludes its frames from JAX tracebacks)?
        The innermost visible non-jax frame of a loop GenJAX or the harness wrote itself is the very line that
        calls the loop constructor (scan / while_loop / fori_loop); otherwise the loop lives in library code that
        this frame merely called (log_prob / sample of a TFP distribution)."""
        import linecache
        import re

        try:
            frames = eqn.source_info.traceback.frames
        except Exception:
            return False
        for fr in frames:
            fn = fr.file_name
            if "/jax/" in fn or "/jaxlib/" in fn:
                continue
            if "tensorflow_probability/python" in fn or "tensorflow_probability/substrates" in fn:
                return True
            for ln in range(fr.line_num, max(fr.line_num - 12, 0), -1):
                if re.search(r"\b(scan|while_loop|fori_loop|map|bind|eval_jaxpr\w*)\s*\(", linecache.getline(fn, ln)):  # own loop, or an interpreter re-binding one
                    return False
            return True
        return False

    def _opaque_loop(self, eqn, ins):
        p = eqn.params
        body = p.get("jaxpr") or p.get("body_jaxpr")
        tag = "tfp_sampler_loop_" + hashlib.sha1((str(p.get("cond_jaxpr", "")) + str(body)).encode()).hexdigest()[:8]
        outs = self.generic_uf(eqn, ins, tag=tag)
        for a, v in zip(ins, eqn.invars):
            if is_key_dtype(v.aval.dtype):
                for kk in a.reshape(-1):
                    self.draws.append(DrawSite(tag, kk, 0, None, self._pc()))
        return outs

    def p_scan(self, eqn, ins):
        p = eqn.params
        if self._library_sampler_loop(eqn) or (p["length"] > 16 and self._from_tfp(eqn) and not self.concrete_rng):
            return self._opaque_loop(eqn, ins)
        cj, length, rev = p["jaxpr"], p["length"], p["reverse"]
        nc, ncar = p["num_consts"], p["num_carry"]
        consts, carry, xs = ins[:nc], list(ins[nc:nc + ncar]), ins[nc + ncar:]
        n_ys = len(eqn.outvars) - ncar
        ys = [[None] * length for _ in range(n_ys)]
        order = range(length - 1, -1, -1) if rev else range(length)
        for i in order:
            xi = [_index0(x, i) for x in xs]
            outs = self.eval_closed(cj, consts + carry + xi)
            carry = outs[:ncar]
            for j in range(n_ys):
                ys[j][i] = outs[ncar + j]
        stacked = []
        for j in range(n_ys):
            ov = eqn.outvars[ncar + j]
            if length == 0:
                stacked.append(obj(ov.aval.shape))
            else:
                stacked.append(_stack0(ys[j]))
        return carry + stacked

    def p_while(self, eqn, ins):
        p = eqn.params
        if self._library_sampler_loop(eqn):
            return self._opaque_loop(eqn, ins)
        cn, bn = p["cond_nconsts"], p["body_nconsts"]
        cconsts, bconsts, state = ins[:cn], ins[cn:cn + bn], list(ins[cn + bn:])
        kinds = [kind_of(v.aval.dtype) for v in eqn.outvars]
        # phase 1: concrete condition
        iters = 0
        while True:
            c = lower(self.eval_closed(p["cond_jaxpr"], cconsts + state)[0][()])
            if is_sym(c):
                break
            if not c:
                return state
            iters += 1
            if iters > 64:
                raise Unsupported("while: more than 64 concrete iterations")
            state = self.eval_closed(p["body_jaxpr"], bconsts + state)
        # phase 2: symbolic condition, bounded unrolling with unwinding assertion
        if self._from_tfp(eqn) and not self.concrete_rng:
            # numeric kernel inside tensorflow_probability (Lambert W / Bessel iterations, quadrature): like lgamma,
            # an uninterpreted function of its inputs named by its code (same code on both sides => same symbol)
            return self._opaque_loop(eqn, ins)
        if any(is_key_dtype(v.aval.dtype) for v in eqn.invars):
            # rejection sampler: an uninterpreted function of (key, parameters) named by the loop's code
            tag = "rejection_while_" + hashlib.sha1((str(p["cond_jaxpr"]) + str(p["body_jaxpr"])).encode()).hexdigest()[:8]
            outs = self.generic_uf(eqn, ins[:cn + bn] + state, tag=tag)
            for a, v in zip(state, eqn.invars[cn + bn:]):
                if is_key_dtype(v.aval.dtype):
                    for kk in a.reshape(-1):
                        self.draws.append(DrawSite(tag, kk, 0, None, self._pc()))
            return outs
        guards = []
        for _ in range(self.while_bound):
            c = lower(self.eval_closed(p["cond_jaxpr"], cconsts + state)[0][()])
            if not is_sym(c):
                if not c:
                    return state
                c = True
            g = c if not guards else self.ops.and_(guards[-1], c)
            self.pc.append(g)
            try:
                new = self.eval_closed(p["body_jaxpr"], bconsts + state)
            finally:
                self.pc.pop()
            state = [ew(lambda a, b, kk=kk: self.ops.ite(g, a, b, kk), nw, st) for nw, st, kk in zip(new, state, kinds)]
            guards.append(g)
        c = lower(self.eval_closed(p["cond_jaxpr"], cconsts + state)[0][()])
        last = self.ops.and_(guards[-1], c) if guards else c
        if not (not is_sym(last) and last is False):
            self.unwinding.append(z3.And(*[zbool(x) for x in self._pc()], zbool(last)))
        return state

    # ---- randomness
    def _crand(self, eqn, ins):
        args = [(_ck_arr(a) if is_key_dtype(v.aval.dtype) else jnp.asarray(to_numpy(a, v.aval.dtype))) for a, v in zip(ins, eqn.invars)]
        r = eqn.primitive.bind(*args, **eqn.params)
        if is_key_dtype(eqn.outvars[0].aval.dtype):
            return [_ck_obj(r)]
        return [from_numpy(np.asarray(r))]

    def p_random_seed(self, eqn, ins):
        if self.concrete_rng:
            return self._crand(eqn, ins)
        return [ew(lambda s: Key.seed(zint(s)), ins[0])]

    def p_random_fold_in(self, eqn, ins):
        if self.concrete_rng:
            return self._crand(eqn, ins)
        return [ew(lambda k, d: Key.fold_in(k, zint(d)), *ins)]

    def p_random_split(self, eqn, ins):
        if self.concrete_rng:
            return self._crand(eqn, ins)
        shape = tuple(eqn.params["shape"])
        a = ins[0]
        out = obj(a.shape + shape)
        n = int(np.prod(shape)) if shape else 1
        for idx in np.ndindex(*a.shape):
            for j, sub in enumerate(np.ndindex(*shape)):
                # with the default (partitionable) threefry implementation split(k, n)[j] IS fold_in(k, j) - measured on this
                # JAX version - so both derivations must produce the same key term, or collisions between a vmap element's
                # key and a sibling's fold_in key would be invisible to the key-separation queries
                out[idx + sub] = Key.fold_in(a[idx], z3.IntVal(j))
        del n
        return [out]

    def p_random_unwrap(self, eqn, ins):
        if self.concrete_rng:
            return self._crand(eqn, ins)
        a = ins[0]
        f = uf("keydata", Key, _I, _I)
        out = obj(a.shape + (2,))
        for idx in np.ndindex(*a.shape):
            for j in range(2):
                out[idx + (j,)] = f(a[idx], z3.IntVal(j))
        return [out]

    def p_random_wrap(self, eqn, ins):
        if self.concrete_rng:
            return self._crand(eqn, ins)
        a = ins[0]
        out = obj(a.shape[:-1])
        for idx in np.ndindex(*a.shape[:-1]):
            x, y = a[idx + (0,)], a[idx + (1,)]
            if (is_sym(x) and is_sym(y) and z3.is_app(x) and z3.is_app(y) and x.decl().name() == "keydata"
                    and y.decl().name() == "keydata" and x.arg(0).eq(y.arg(0))):
                out[idx] = x.arg(0)
            else:
                out[idx] = Key.wrap(zint(x), zint(y))
        return [out]

    def p_random_clone(self, eqn, ins):
        return [ins[0]]

    def p_random_bits(self, eqn, ins):
        if self.concrete_rng:
            return self._crand(eqn, ins)
        shape = tuple(eqn.params["shape"])
        return [self.draw("bits", ins[0], shape, _I)]

    def draw(self, kind, keys, shape, sort, params=None):
        f = uf("draw_" + kind, Key, _I, sort)
        out = obj(keys.shape + shape)
        for idx in np.ndindex(*keys.shape):
            k = keys[idx]
            for j, sub in enumerate(np.ndindex(*shape)):
                out[idx + sub] = f(k, z3.IntVal(j))
            self.draws.append(DrawSite(kind, k, int(np.prod(shape)) if shape else 1, params, self._pc()))
        return out


def _sub_jaxprs(eqn):
    for v in eqn.params.values():
        if hasattr(v, "jaxpr"):
            yield v.jaxpr
        elif hasattr(v, "eqns"):
            yield v
        elif isinstance(v, (list, tuple)):
            for b in v:
                if hasattr(b, "jaxpr"):
                    yield b.jaxpr


def _consumes_keys(eqn):
    if any(is_key_dtype(v.aval.dtype) for v in eqn.invars):
        return True
    for sj in _sub_jaxprs(eqn):
        for e in sj.eqns:
            if e.primitive.name.startswith("random_") or _consumes_keys(e):
                return True
    return False


def _fill_value(kind):
    return {"f": float("nan"), "i": -(2**31), "b": True}[kind]


def _index0(a, i):
    r = a[i]
    if not isinstance(r, np.ndarray):
        r = box(r)
    return r


def _stack0(lst):
    out = obj((len(lst),) + lst[0].shape)
    for i, x in enumerate(lst):
        out[i] = x if x.shape else x[()]
    return out


def _is_ground_const(t):
    return _is_numeral(t) or z3.is_true(t) or z3.is_false(t)


def to_numpy(a, dtype):
    k = kind_of(dtype)
    out = np.zeros(a.shape, dtype=dtype)
    for idx in np.ndindex(*a.shape):
        x = lower(a[idx])
        if is_sym(x) or isinstance(x, SpecialIte):
            raise Unsupported("to_numpy on symbolic value")
        out[idx] = bool(x) if k == "b" else (int(x) if k == "i" else float(x))
    return out


_UNARY_UF = {
    "log", "log1p", "expm1", "sqrt", "rsqrt", "tanh", "erf", "erfc", "erf_inv", "lgamma", "digamma",
    "sin", "cos", "tan", "logistic", "atan", "asin", "acos", "sinh", "cosh", "asinh", "acosh", "atanh",
    "cbrt", "exp2", "bessel_i0e", "bessel_i1e",
}

_STRUCTURAL = {
    "broadcast_in_dim", "reshape", "squeeze", "expand_dims", "concatenate", "transpose", "slice", "rev",
    "pad", "split",
}


# ---- sampler stubs at jax.random level -----------------------------------


def _stub_normal(self, eqn, ins):
    ov = eqn.outvars[0]
    keys = ins[0]
    shape = tuple(ov.aval.shape[keys.ndim:])
    return [self.draw("normal", keys, shape, _R)]


def _stub_gumbel(self, eqn, ins):
    ov = eqn.outvars[0]
    keys = ins[0]
    return [self.draw("gumbel", keys, tuple(ov.aval.shape[keys.ndim:]), _R)]


def _stub_uniform(self, eqn, ins):
    ov = eqn.outvars[0]
    keys, lo, hi = ins
    if kind_of(ov.aval.dtype) != "f":
        raise Unsupported("integer uniform")
    u = self.draw("uniform", keys, tuple(ov.aval.shape[keys.ndim:]), _R)
    for t in u.reshape(-1):
        self.side.append(z3.And(t >= 0, t < 1))
    ops = self.ops
    return [ew(lambda uu, l, h: ops.add(ops.mul(uu, ops.sub(h, l, "f"), "f"), l, "f"), u, lo, hi)]


_SAMPLER_STUBS = {
    "_normal": _stub_normal,
    "_normal_real": _stub_normal,
    "_gumbel": _stub_gumbel,
    "_uniform": _stub_uniform,
}
