"""Claimed checks: pid -> (category, technique, level text, level note, design ref)."""
MC = "model_checking"
TV = "translation_validation"
_BND = "Bounded: every argument, choice value, flag, index and key is a universally quantified SMT variable; structure (program from the catalogue grammar, addresses, shapes <= 3, nesting <= 3, request kinds) is enumerated."
_NOTE = "Trusted: jax.make_jaxpr faithfully stages the real code; the E1 interpreter (self-validated against jax.core.eval_jaxpr on every obligation); z3; float32 modelled as reals; TFP log_prob as the single-density oracle."

_MC = "bounded symbolic model checking: jaxprs of the real GFI calls symbolically executed into z3 (all values symbolic, structure enumerated), counterexamples replayed on the real code"

_TVT = "translation validation: two jaxprs traced from the real code (transformed vs. plain function) proved equivalent by symbolic execution + z3 for all inputs"

CHECKS = {
    "C09": (TV, _TVT, "incremental(f) primals == f(x) for all x, and 2-safety non-interference (outputs tagged NoChange agree on any two inputs that agree on the NoChange-tagged arguments), for 14 functions x all 2^n taggings. Bounded: function grammar enumerated, loops unrolled exactly (scan/fori) or to a checked bound (while).", _NOTE, "DESIGN.md section 4 C09"),
    "C19": (MC, _MC, "12 Mask expressions vs their truth tables for all flag values and payloads: symbolic scalar and vector flags, every concrete/traced tagging, jax.vmap vs vectorised flags. " + _BND, _NOTE, "DESIGN.md section 4 C19"),
    "C20": (MC, _MC, "FlagOp ops vs Boolean logic under every concrete/traced tagging; tree_choose == vs[idx mod n] for ALL integers with dtype promotion; multi_switch runs branch clamp(idx) and leaves zeros elsewhere for ALL integers. " + _BND, _NOTE, "DESIGN.md section 4 C20"),
    "C31": (MC, _MC, "time_machine(f): final_retval, every frame's args/local value in execution order, fwd/bwd/jump pointer ranges, and remix at each frame with fresh symbolic arguments equal direct recomputation, for all inputs; 3 functions with nested / closure / array record points.", _NOTE, "DESIGN.md section 4 C31"),
    "C36": (TV, _TVT, "stateful(f)(null handler, *x) == f(*x) for all x over the 14-function grammar plus initial-style primitives at top level, inside cond and inside scan (which must equal their wrapped function).", _NOTE, "DESIGN.md section 4 C36"),
    "C07": (MC, _MC, "Regenerate(sel): unselected sites unchanged, weight = reference newscore-oldscore, new trace equals the reference at its own values, empty selection => same trace and weight 0, for all values and selections (all/none/site/complement/prefix/wildcard/union). " + _BND, _NOTE, "DESIGN.md section 4 C07"),
    "C10": (MC, _MC, "project(S) equals the sum of reference log-densities of the selected sites and project(S)+project(~S) equals the score, for all values and the enumerated selections. " + _BND, _NOTE, "DESIGN.md section 4 C10"),
    "C11": (MC, _MC, "vmap/repeat vs (i) N separate calls of the inner program's own GFI and (ii) the reference; a constraint at a symbolic index i changes only element i; repeat == vmap over copies; N=0 is empty with score 0. " + _BND, _NOTE, "DESIGN.md section 4 C11"),
    "C12": (MC, _MC, "scan, accumulate, reduce, iterate, iterate_final equal their documented Python loops (score, final carry, stacked outputs, per-index choices) after assess/simulate/importance/update/regenerate/index edits at a symbolic position. " + _BND, _NOTE, "DESIGN.md section 4 C12"),
    "C13": (MC, _MC, "switch/or_else/mix equal 'branch clamp(idx) alone' (reference and the branch's own GFI) for ALL integer indices, flags and logits; index-changing updates included. " + _BND, _NOTE, "DESIGN.md section 4 C13"),
    "C14": (MC, _MC, "mask with symbolic flag: True => inner program's score/weight/choices/retval, False => 0/0/empty/invalid; all four flag transitions of an update in one query. " + _BND, _NOTE, "DESIGN.md section 4 C14"),
    "C15": (MC, _MC, "dimap/map/contramap: choices/score/weight are the inner program's on pre(args); retval and retdiff primal equal recomputed post; NoChange retdiffs carry the previous retval, under every single-argument tagging. " + _BND, _NOTE, "DESIGN.md section 4 C15"),
    "C16": (MC, _MC, "masked_iterate(_final) with a symbolic mask vector and non-identity steps: score sums unmasked steps only; masked_iterate_final leaves the value unchanged on a False step. " + _BND, _NOTE, "DESIGN.md section 4 C16"),
    "C01": (MC, _MC, "For every catalogue program and every history (simulate | importance(S) | importance;update(S,args') | update;update | regenerate(sel) | index edit at a symbolic position) the trace's score/retval equal assess on its own choices and args, for all values. " + _BND, _NOTE, "DESIGN.md section 4 C01"),
    "C03": (MC, _MC, "importance(S): weight equals the sum of independent reference log-densities of exactly the constrained sites, the trace agrees with the constraint where present, empty/full constraints included, for all values. " + _BND, _NOTE, "DESIGN.md section 4 C03"),
    "C05": (MC, _MC, "importance(full);Update(S, args'): new args, choices (constraint on S, previous values elsewhere), weight = reference newscore-oldscore when nothing is resampled, backward constraint = previous values at overwritten addresses, for all values. " + _BND, _NOTE, "DESIGN.md section 4 C05"),
    "C06": (MC, _MC, "forward edit followed by its returned backward request restores choices, score and retval with weight -w, for Update/Regenerate/IndexRequest/StaticRequest/DiffAnnotate/EmptyRequest on every catalogue program that accepts them, for all values. " + _BND, _NOTE, "DESIGN.md section 4 C06"),
    "C02": (MC, "bounded symbolic model checking: jaxpr of real assess/importance symbolically executed into z3 and compared with an independent reference log-density",
            "assess and full-constraint importance scores equal an independent reference joint log-density (Python loops + TFP log_prob) for all values. " + _BND, _NOTE, "DESIGN.md section 4 C02"),
}
