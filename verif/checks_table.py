"""Claimed checks: pid -> (category, technique, level text, level note, design ref)."""
MC = "model_checking"
TV = "translation_validation"
_BND = "Bounded: every argument, choice value, flag, index and key is a universally quantified SMT variable; structure (program from the catalogue grammar, addresses, shapes <= 3, nesting <= 3, request kinds) is enumerated."
_NOTE = "Trusted: jax.make_jaxpr faithfully stages the real code; the E1 interpreter (self-validated against jax.core.eval_jaxpr on every obligation); z3; float32 modelled as reals; TFP log_prob as the single-density oracle."

CHECKS = {
    "C02": (MC, "bounded symbolic model checking: jaxpr of real assess/importance symbolically executed into z3 and compared with an independent reference log-density",
            "assess and full-constraint importance scores equal an independent reference joint log-density (Python loops + TFP log_prob) for all values. " + _BND, _NOTE, "DESIGN.md section 4 C02"),
}
