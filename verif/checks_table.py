"""Claimed checks: pid -> (category, technique, level text, level note, design ref)."""
MC = "model_checking"
TV = "translation_validation"
_BND = "Bounded: every argument, choice value, flag, index and key is a universally quantified SMT variable; structure (program from the catalogue grammar, addresses, shapes <= 3, nesting <= 3, request kinds) is enumerated."
_NOTE = "Trusted: jax.make_jaxpr faithfully stages the real code; the E1 interpreter (self-validated against jax.core.eval_jaxpr on every obligation); z3; float32 modelled as reals; TFP log_prob as the single-density oracle."

_MC = "bounded symbolic model checking: jaxprs of the real GFI calls symbolically executed into z3 (all values symbolic, structure enumerated), counterexamples replayed on the real code"

CHECKS = {
    "C01": (MC, _MC, "For every catalogue program and every history (simulate | importance(S) | importance;update(S,args') | update;update | regenerate(sel) | index edit at a symbolic position) the trace's score/retval equal assess on its own choices and args, for all values. " + _BND, _NOTE, "DESIGN.md section 4 C01"),
    "C03": (MC, _MC, "importance(S): weight equals the sum of independent reference log-densities of exactly the constrained sites, the trace agrees with the constraint where present, empty/full constraints included, for all values. " + _BND, _NOTE, "DESIGN.md section 4 C03"),
    "C05": (MC, _MC, "importance(full);Update(S, args'): new args, choices (constraint on S, previous values elsewhere), weight = reference newscore-oldscore when nothing is resampled, backward constraint = previous values at overwritten addresses, for all values. " + _BND, _NOTE, "DESIGN.md section 4 C05"),
    "C06": (MC, _MC, "forward edit followed by its returned backward request restores choices, score and retval with weight -w, for Update/Regenerate/IndexRequest/StaticRequest/DiffAnnotate/EmptyRequest on every catalogue program that accepts them, for all values. " + _BND, _NOTE, "DESIGN.md section 4 C06"),
    "C02": (MC, "bounded symbolic model checking: jaxpr of real assess/importance symbolically executed into z3 and compared with an independent reference log-density",
            "assess and full-constraint importance scores equal an independent reference joint log-density (Python loops + TFP log_prob) for all values. " + _BND, _NOTE, "DESIGN.md section 4 C02"),
}
