"""A small grammar of JAX-traceable functions for the interpreter properties (C09, C36, C31)."""
import jax
import jax.numpy as jnp
from jax import lax

F = lambda x: jnp.asarray(x, jnp.float32)  # noqa: E731
CONST = jnp.array([0.5, -1.0, 2.0], jnp.float32)


def arith(x, y, z):
    return x * y + z, (x - z) * 2.0


def literal_out(x, y):
    return x + 1.0, 3.0, jnp.float32(2.0)


def closed_const(x, v):
    return x * CONST + v, jnp.sum(CONST) + x


def indexing(v, i):
    return v[i], v[0] + v[2], jnp.take(v, i + 1, mode="clip")


def dyn_update(v, i, x):
    return v.at[i].set(x), lax.dynamic_slice(v, (i,), (2,))


def select(c, x, y):
    return jnp.where(c, x, y), jnp.where(x > y, x, y)


def cond_fn(c, x, y):
    return lax.cond(c, lambda a, b: a * b + 1.0, lambda a, b: a - b, x, y), y


def switch_fn(i, x, y):
    return lax.switch(i, [lambda a, b: a + b, lambda a, b: a * 2.0, lambda a, b: b - 1.0], x, y)


def scan_fn(c, xs):
    def body(carry, x):
        carry = carry * 0.5 + x
        return carry, carry * x

    return lax.scan(body, c, xs)


def fori_fn(x, y):
    return lax.fori_loop(0, 3, lambda i, a: a * y + i, x)


def while_fn(x, n):
    # bounded while: at most 4 iterations (n is clamped)
    def cond(s):
        return s[1] < jnp.clip(n, 0, 4)

    def body(s):
        return (s[0] * 2.0 + 1.0, s[1] + 1)

    return lax.while_loop(cond, body, (x, jnp.int32(0)))[0]


def multi_out(v):
    a, b = jnp.split(v, [1])
    return a.sum(), b * 2.0, jnp.cumsum(v)


def pytree_fn(d, t):
    return {"s": d["a"] + t[0], "p": (d["b"] * t[1], d["a"])}


def unused_input(x, y):
    return x * 2.0


FUNCS = {
    "arith": (arith, (F(1.0), F(2.0), F(3.0))),
    "literal_out": (literal_out, (F(1.0), F(2.0))),
    "closed_const": (closed_const, (F(1.0), jnp.array([0.1, 0.2, 0.3], jnp.float32))),
    "indexing": (indexing, (jnp.array([1.0, 2.0, 3.0], jnp.float32), jnp.int32(1))),
    "dyn_update": (dyn_update, (jnp.array([1.0, 2.0, 3.0], jnp.float32), jnp.int32(1), F(9.0))),
    "select": (select, (jnp.array(True), F(1.0), F(2.0))),
    "cond": (cond_fn, (jnp.array(True), F(1.0), F(2.0))),
    "switch": (switch_fn, (jnp.int32(1), F(1.0), F(2.0))),
    "scan": (scan_fn, (F(1.0), jnp.array([1.0, 2.0, 3.0], jnp.float32))),
    "fori": (fori_fn, (F(1.0), F(2.0))),
    "while": (while_fn, (F(1.0), jnp.int32(2))),
    "multi_out": (multi_out, (jnp.array([1.0, 2.0, 3.0], jnp.float32),)),
    "pytree": (pytree_fn, ({"a": F(1.0), "b": F(2.0)}, (F(3.0), F(4.0)))),
    "unused_input": (unused_input, (F(1.0), F(2.0))),
}
