"""Obligations: trace real GenJAX code -> jaxpr -> z3, decide, replay."""

from __future__ import annotations

import fnmatch
import hashlib
import json
import os
import time
import traceback
from dataclasses import dataclass, field
from fractions import Fraction
from typing import Any, Callable

import jax
import jax.extend
import jax.numpy as jnp
import numpy as np
import z3

from . import jaxsmt as J

VERIF = os.path.dirname(os.path.dirname(os.path.abspath(__file__)))
REPLAYS = os.path.join(VERIF, "replays")


@dataclass
class Ob:
    """One proof obligation.

    fn(*args) -> (lhs, rhs): two pytrees with the same number of leaves; the
    obligation is "lhs == rhs leafwise for all values of args" (under assume).
    args are example inputs (shapes/dtypes only matter; values are used by the
    self-validation and as defaults in replays).
    """

    name: str
    fn: Callable
    args: tuple
    assume: Callable | None = None  # assume(*symbolic_args) -> list[z3 Bool]
    mode: str = "uf"  # 'uf' (products abstracted) or 'exact'
    note: str = ""
    tol: float = 0.0  # |lhs-rhs| <= tol instead of equality (constants computed differently)
    custom: Callable | None = None  # custom(interp, sym_args, outs) -> list[(label, z3 Bool that must be UNSAT)]
    concrete: tuple = ()  # indices of args kept concrete (not symbolic)
    expect_raise: bool = False  # obligation is "tracing fn does not raise from /repo/src"
    timeout_s: float = 60.0
    replay_keys: int = 4
    while_bound: int = 8
    selfcheck: bool = True
    nonneg: tuple = ()
    kind: str = "equal"
    ranges: dict = field(default_factory=dict)  # arg index -> (lo, hi): every int leaf of that arg lies in [lo, hi] (assumed; lets gathers split over feasible values only)
    fold: bool = False  # finite-domain mode: keep if-then-else trees with constant leaves folded (small integer inputs selecting constants)
    exact_specials: bool = False  # keep +-inf / nan produced by a unary op under an if-then-else (log(where(c, 0, p))) as exact leaves: for obligations ABOUT non-finite scores; elsewhere they stay distinguished finite constants so that identical op sequences compare equal
    replay: Callable | None = None  # replay(args) -> (differs, detail): concrete confirmation on the real code for custom obligations


@dataclass
class Result:
    name: str
    verdict: str  # unsat | sat | unknown | error | raised
    ms: float = 0.0
    n_eqns: int = 0
    functions: list = field(default_factory=list)
    prims: list = field(default_factory=list)
    nontrivial: int = 0
    leaves: int = 0
    detail: str = ""
    cex: dict | None = None  # concrete inputs of a replayed counterexample
    reproduced: bool = False
    known: str | None = None
    queries: list = field(default_factory=list)
    uf_fallbacks: list = field(default_factory=list)
    unwinding: int = 0
    assumptions: list = field(default_factory=list)
    selfcheck: str = ""
    solver_s: float = 0.0
    mode: str = ""


# --------------------------------------------------------------------------


def _leaf_name(path):
    return jax.tree_util.keystr(path)


def trace(ob: Ob):
    closed, out_shape = jax.make_jaxpr(ob.fn, return_shape=True)(*ob.args)
    try:  # dead-code elimination: equations no compared output depends on are not encoded
        from jax._src.interpreters import partial_eval as pe

        jp, _ = pe.dce_jaxpr(closed.jaxpr, [True] * len(closed.jaxpr.outvars), instantiate=True)
        closed = jax.extend.core.ClosedJaxpr(jp, closed.consts)
    except Exception:  # noqa: BLE001
        pass
    return closed, out_shape


def sym_inputs(ob: Ob, closed, interp: J.Interp):
    """Symbolic object arrays for each flat input; registry name -> (term, kind, leaf index, element index)."""
    leaves_p, treedef = jax.tree_util.tree_flatten_with_path(ob.args)
    flat_arg_index = []
    for ai, a in enumerate(ob.args):
        n = len(jax.tree_util.tree_leaves(a))
        flat_arg_index += [ai] * n
    assert len(leaves_p) == len(closed.jaxpr.invars), (len(leaves_p), len(closed.jaxpr.invars))
    registry = {}
    arrays = []
    for li, ((path, leaf), v) in enumerate(zip(leaves_p, closed.jaxpr.invars)):
        base = "a" + _leaf_name(path).replace("[", "_").replace("]", "").replace("'", "").replace(".", "_")
        aval = v.aval
        if flat_arg_index[li] in ob.concrete:
            arrays.append(interp.const(leaf) if J.is_key_dtype(aval.dtype) else J.from_numpy(np.asarray(leaf)))
            continue
        k = J.kind_of(aval.dtype)
        a = J.obj(aval.shape)
        for ei, idx in enumerate(np.ndindex(*aval.shape)):
            nm = base if aval.shape == () else f"{base}_{'_'.join(map(str, idx))}"
            if k == "k":
                t = interp.fresh_key()
            elif k == "f":
                t = z3.Real(nm)
            elif k == "i":
                t = z3.Int(nm)
            else:
                t = z3.Bool(nm)
            a[idx] = t
            if k != "k":
                registry[nm] = (t, k, li, idx)
            if k == "i" and flat_arg_index[li] in ob.ranges:
                lo, hi = ob.ranges[flat_arg_index[li]]
                interp.bounds[t.get_id()] = (lo, hi, t)
                interp.side.append(z3.And(t >= lo, t <= hi))
        arrays.append(a)
    sym_args = jax.tree_util.tree_unflatten(treedef, arrays)
    return arrays, sym_args, registry


def same(ops, a, b, kind, tol=0.0):
    """Bool term / python bool: a and b denote the same value."""
    if isinstance(a, J.SpecialIte) or isinstance(b, J.SpecialIte):
        return J.SpecialIte.lift2(ops, lambda x, y: same(ops, x, y, kind, tol), a, b, boolean=True)
    a, b = J.lower(a), J.lower(b)
    if J.is_special(a) and J.is_special(b):
        return (a != a and b != b) or a == b
    if tol and kind == "f":
        d = ops.sub(a, b, "f")
        if not J.is_sym(d):
            return abs(d) <= tol
        return z3.And(d <= tol, d >= -tol)
    return ops.cmp("eq", a, b, kind)


def split_outs(out_shape, outs):
    lhs_s, rhs_s = out_shape
    nl = len(jax.tree_util.tree_leaves(lhs_s))
    nr = len(jax.tree_util.tree_leaves(rhs_s))
    return outs[:nl], outs[nl:nl + nr], nl, nr


def _kinds(shape_tree):
    return [J.kind_of(s.dtype) for s in jax.tree_util.tree_leaves(shape_tree)]


def build_diffs(ob, interp, out_shape, outs):
    lhs, rhs, nl, nr = split_outs(out_shape, outs)
    if nl != nr:
        return None, f"structure mismatch: {nl} vs {nr} leaves"
    lk, rk = _kinds(out_shape[0]), _kinds(out_shape[1])
    paths = [jax.tree_util.keystr(p) for p, _ in jax.tree_util.tree_flatten_with_path(out_shape[0])[0]]
    diffs = []
    interp.symbolic_leaves = 0
    for i, (a, b) in enumerate(zip(lhs, rhs)):
        if a.shape != b.shape:
            try:
                a, b = np.broadcast_arrays(a, b)
            except ValueError:
                return None, f"shape mismatch at leaf {paths[i]}: {a.shape} vs {b.shape}"
        kind = lk[i] if lk[i] == rk[i] else "f"
        for idx in np.ndindex(*a.shape):
            x, y = a[idx], b[idx]
            if kind == "f" and lk[i] != rk[i]:
                x = _to_f(interp.ops, x, lk[i])
                y = _to_f(interp.ops, y, rk[i])
            if J.is_sym(J.lower(x)) or J.is_sym(J.lower(y)) or isinstance(x, J.SpecialIte) or isinstance(y, J.SpecialIte):
                interp.symbolic_leaves += 1
            s = same(interp.ops, x, y, kind, ob.tol)
            if J.is_sym(s):
                s2 = z3.simplify(s)
                if z3.is_true(s2):
                    continue
                if kind == "f" and not ob.tol and ob.mode == "exact" and not ob.fold:  # obligations declared polynomial (no fall-back runs)
                    # polynomial identities: expand the difference into a sum of monomials; 0 means syntactically equal
                    try:
                        d0 = z3.simplify(J.zreal(J.lower(x)) - J.zreal(J.lower(y)), som=True)
                        if z3.is_rational_value(d0) and d0.numerator_as_long() == 0:
                            continue
                    except Exception:  # noqa: BLE001
                        pass
                diffs.append((f"{paths[i]}{list(idx) if idx else ''}", z3.Not(s)))
            elif not s:
                diffs.append((f"{paths[i]}{list(idx) if idx else ''}", z3.BoolVal(True)))
    return diffs, None


def _to_f(ops, x, k):
    if k == "f":
        return x
    if J.is_sym(x):
        return J.zreal(x)
    return Fraction(int(x))


def model_inputs(model, registry, ob):
    """Concrete flat leaves from a model (example values where unconstrained)."""
    leaves, treedef = jax.tree_util.tree_flatten(ob.args)
    new = [np.array(l) if not J.is_key_dtype(getattr(l, "dtype", np.float32)) else l for l in leaves]
    assigned = {}
    for nm, (t, k, li, idx) in registry.items():
        v = model.eval(t, model_completion=True)
        if k == "b":
            val = z3.is_true(v)
        elif k == "i":
            val = v.as_long()
        else:
            if z3.is_rational_value(v):
                val = float(Fraction(v.numerator_as_long(), v.denominator_as_long()))
            elif z3.is_algebraic_value(v):
                val = float(v.approx(20).as_fraction())
            else:
                val = 0.0
        new[li][idx] = val
        assigned[nm] = val if not isinstance(val, bool) else bool(val)
    out = []
    for l, orig in zip(new, leaves):
        if J.is_key_dtype(getattr(orig, "dtype", np.float32)):
            out.append(orig)
        else:
            out.append(jnp.asarray(l, dtype=np.asarray(orig).dtype))
    return jax.tree_util.tree_unflatten(treedef, out), assigned


def tree_close(lhs, rhs, tol=1e-4):
    la, ra = jax.tree_util.tree_leaves(lhs), jax.tree_util.tree_leaves(rhs)
    if len(la) != len(ra):
        return False, f"leaf count {len(la)} vs {len(ra)}"
    for i, (a, b) in enumerate(zip(la, ra)):
        if J.is_key_dtype(getattr(a, "dtype", np.float32)):
            a, b = jax.random.key_data(a), jax.random.key_data(b)
        a, b = np.asarray(a, dtype=np.float64), np.asarray(b, dtype=np.float64)
        try:
            a, b = np.broadcast_arrays(a, b)
        except ValueError:
            return False, f"leaf {i} shape {a.shape} vs {b.shape}"
        both_nan = np.isnan(a) & np.isnan(b)
        same_inf = np.isinf(a) & np.isinf(b) & (np.sign(a) == np.sign(b))
        with np.errstate(invalid="ignore"):
            ok = (np.abs(a - b) <= tol * (1 + np.abs(b))) | both_nan | same_inf
        if not ok.all():
            j = int(np.argmin(ok.reshape(-1)))
            return False, f"leaf {i}[{j}]: {a.reshape(-1)[j]!r} vs {b.reshape(-1)[j]!r}"
    return True, ""


def key_arg_positions(ob):
    pos = []
    for i, a in enumerate(ob.args):
        ls = jax.tree_util.tree_leaves(a)
        if ls and all(J.is_key_dtype(getattr(l, "dtype", np.float32)) for l in ls):
            pos.append(i)
    return pos


def replay_concrete(ob: Ob, args, nkeys=None):
    """Run the real code eagerly on concrete args; return (differs, detail)."""
    if ob.replay is not None:
        return ob.replay(args)
    kpos = key_arg_positions(ob)
    nkeys = nkeys if nkeys is not None else ob.replay_keys
    trials = range(nkeys) if kpos else range(1)
    seed = int(os.environ.get("VERIF_SEED", "0"))
    last = ""
    for t in trials:
        a = list(args)
        for p in kpos:
            a[p] = jax.tree_util.tree_map(lambda k, t=t, p=p: jax.random.fold_in(jax.random.key(seed + 17 * t + p), 1) if k.shape == () else jax.random.split(jax.random.key(seed + 17 * t + p), k.shape[0]), a[p])
        try:
            lhs, rhs = ob.fn(*a)
        except Exception as e:  # noqa: BLE001
            if _raised_in_repo(e):
                return True, f"raised {type(e).__name__}: {str(e)[:200]}"
            raise
        ok, d = tree_close(lhs, rhs)
        if not ok:
            return True, f"key#{t}: {d}"
        last = d
    return False, last


def _raised_in_repo(e):
    """The innermost frame that is neither library code nor a beartype wrapper decides who raised."""
    tb = traceback.extract_tb(e.__traceback__)
    for fr in reversed(tb):
        fn = fr.filename
        if "site-packages" in fn or fn.startswith("<") or "/lib/python" in fn:
            continue
        return fn.startswith(J.REPO_ROOT)
    return False


def selfcheck(ob: Ob, closed, n=2):
    """Interpreter in concrete mode vs real evaluation of the same jaxpr."""
    rng = np.random.RandomState(int(os.environ.get("VERIF_SEED", "0")) + 7)
    leaves, _ = jax.tree_util.tree_flatten(ob.args)
    flat_arg_index = []
    for ai, a in enumerate(ob.args):
        flat_arg_index += [ai] * len(jax.tree_util.tree_leaves(a))
    for trial in range(n):
        conc = []
        for li, l in enumerate(leaves):
            dt = getattr(l, "dtype", None)
            if dt is not None and J.is_key_dtype(dt):
                conc.append(jax.random.key(trial + 3) if l.shape == () else jax.random.split(jax.random.key(trial + 3), l.shape[0]))
                continue
            arr = np.asarray(l)
            if trial == 0 or flat_arg_index[li] in ob.concrete:
                conc.append(jnp.asarray(arr))
                continue
            k = J.kind_of(arr.dtype)
            if k == "f":
                v = np.abs(rng.randn(*arr.shape)).astype(arr.dtype) + 0.25
            elif k == "i":
                v = rng.randint(0, 3, size=arr.shape).astype(arr.dtype)
            else:
                v = rng.rand(*arr.shape) < 0.5
            conc.append(jnp.asarray(v, dtype=arr.dtype))
        real = jax.core.eval_jaxpr(closed.jaxpr, closed.consts, *conc)
        it = J.Interp(mul_mode="exact", concrete_rng=True, while_bound=ob.while_bound)
        ins = []
        for c in conc:
            if J.is_key_dtype(c.dtype):
                ins.append(J._ck_obj(c))
            else:
                ins.append(J.from_numpy(np.asarray(c)))
        outs = it.eval_closed(closed, ins)
        for oi, (r, o) in enumerate(zip(real, outs)):
            if J.is_key_dtype(getattr(r, "dtype", np.float32)):
                continue
            r = np.asarray(r, dtype=np.float64)
            for idx in np.ndindex(*r.shape):
                x = o[idx]
                if J.is_sym(x) or isinstance(x, J.SpecialIte):
                    return f"selfcheck: output {oi}{idx} stayed symbolic"
                x = float(x)
                y = float(r[idx])
                if (x != x and y != y) or x == y:
                    continue
                if abs(x - y) > 2e-3 * (1 + abs(y)):
                    return f"selfcheck: output {oi}{idx}: encoding {x} vs real {y}"
    return ""


# --------------------------------------------------------------------------


def load_known():
    p = os.path.join(VERIF, "known_findings.json")
    if not os.path.exists(p):
        return []
    return [e for e in json.load(open(p))["findings"] if e.get("status") == "known"]


def region_term(expr, sym_args, ob):
    """Evaluate a region expression over the symbolic args (named a0, a1, ...)."""
    ns = {"Or": z3.Or, "And": z3.And, "Not": z3.Not, "z3": z3, "np": np}
    for i, a in enumerate(sym_args):
        ns[f"a{i}"] = a
    return eval(expr, ns)  # noqa: S307 - expressions come from the committed known_findings.json


def write_replay(pid, ob, cex, detail):
    os.makedirs(REPLAYS, exist_ok=True)
    h = hashlib.sha1((ob.name + json.dumps(cex, sort_keys=True, default=str)).encode()).hexdigest()[:10]
    path = os.path.join(REPLAYS, f"{pid}-{h}.json")
    json.dump({"property": pid, "obligation": ob.name, "inputs": cex, "detail": detail}, open(path, "w"), indent=1, default=str)
    return path


def decide(ob: Ob, pid: str, known: list) -> Result:
    t0 = time.time()
    res = Result(name=ob.name, verdict="error", mode=ob.mode)
    my_known = [k for k in known if k["property"] == pid and fnmatch.fnmatch(ob.name, k["obligation"])]
    # ---- trace the real code
    try:
        closed, out_shape = trace(ob)
    except Exception as e:  # noqa: BLE001
        res.ms = (time.time() - t0) * 1e3
        if _raised_in_repo(e) and not isinstance(e, J.Unsupported):
            res.verdict = "raised"
            res.detail = f"{type(e).__name__}: {str(e)[:300]}"
            # replay: the same call eagerly on the example inputs
            try:
                ob.fn(*ob.args)
                try:
                    # some failures need traced values: replay under jax.jit (still the real code)
                    jax.jit(ob.fn)(*ob.args)
                    res.reproduced = False
                    res.verdict = "error"
                    res.detail += " (did not reproduce eagerly nor under jit)"
                except Exception as e3:  # noqa: BLE001
                    res.reproduced = _raised_in_repo(e3)
                    res.cex = {"raises": type(e3).__name__, "under": "jax.jit"}
                    res.detail += " (eager call succeeds; raised under jax.jit)"
            except Exception as e2:  # noqa: BLE001
                res.reproduced = _raised_in_repo(e2)
                res.cex = {"raises": type(e2).__name__}
            for k in my_known:
                if k.get("raises") and k["raises"] in res.detail:
                    res.known = k["id"]
            return res
        res.detail = "harness/trace error: " + "".join(traceback.format_exception_only(type(e), e))[:400] + traceback.format_exc()[-1200:]
        return res
    if ob.expect_raise:
        res.verdict = "unsat"
        res.detail = "traced without exception"
        res.nontrivial = 1
        res.ms = (time.time() - t0) * 1e3
        return res
    # ---- self-validation of the encoding
    if ob.selfcheck:
        try:
            sc = selfcheck(ob, closed)
        except J.Unsupported as e:
            sc = f"selfcheck unsupported: {e}"
        except Exception as e:  # noqa: BLE001
            sc = f"selfcheck crashed: {type(e).__name__}: {e}" + traceback.format_exc()[-800:]
        res.selfcheck = sc or "ok"
        if sc and not sc.startswith("selfcheck unsupported"):
            res.verdict = "error"
            res.detail = sc
            res.ms = (time.time() - t0) * 1e3
            return res
    # ---- symbolic execution
    modes = [ob.mode] if ob.mode == "exact" else ["uf", "exact"]
    if os.environ.get("VERIF_ONLY_UF"):  # debugging aid
        modes = modes[:1]
    for mode in modes:
        res.mode = mode
        interp = J.Interp(mul_mode=mode, while_bound=ob.while_bound, fold_ct=ob.fold, exact_specials=ob.exact_specials)
        try:
            arrays, sym_args, registry = sym_inputs(ob, closed, interp)
            outs = interp.eval_closed(closed, arrays)
        except J.Unsupported as e:
            res.verdict = "unknown"
            res.detail = f"cannot encode: {e}"
            break
        except Exception as e:  # noqa: BLE001
            res.verdict = "error"
            res.detail = f"interpreter error: {type(e).__name__}: {e}" + traceback.format_exc()[-1500:]
            break
        res.n_eqns = interp.n_eqns
        res.functions = sorted(interp.functions)
        res.prims = sorted(interp.prims)
        res.uf_fallbacks = sorted(interp.uf_fallbacks)
        res.unwinding = len(interp.unwinding)
        assumptions = list(interp.side)
        if ob.assume:
            assumptions += [a for a in ob.assume(*sym_args) if a is not True]
        res.assumptions = [str(a)[:120] for a in assumptions[:12]]
        if ob.custom:
            diffs = ob.custom(interp, sym_args, outs, out_shape)
            err = None
        else:
            diffs, err = build_diffs(ob, interp, out_shape, outs)
        if err:
            # structural mismatch is decided without the solver; replay eagerly
            res.verdict = "sat"
            res.detail = err
            res.reproduced = True
            res.cex = {"structural": err}
            break
        res.leaves = len(diffs)
        res.nontrivial = getattr(interp, "symbolic_leaves", len(diffs))
        for u in interp.unwinding:
            diffs.append(("unwinding-assertion", u))
        if not diffs:
            res.verdict = "unsat"
            res.detail = "all leaves syntactically identical"
            res.queries.append({"q": "syntactic", "verdict": "unsat", "ms": 0})
            break
        regions = []
        for k in my_known:
            if k.get("region"):
                regions.append((k, region_term(k["region"], sym_args, ob)))
        verdict = _solve(ob, pid, res, assumptions, diffs, regions, registry)
        res.verdict = verdict
        if verdict == "sat" and res.reproduced:
            for k in my_known:  # a finding recorded for this one obligation as a whole (its glob names a single program/call site)
                if k.get("whole_obligation"):
                    res.known = k["id"]
        if verdict == "sat" and not res.reproduced and mode == "uf" and len(modes) > 1:
            continue  # spurious in the abstraction: retry exactly
        break
    res.ms = (time.time() - t0) * 1e3
    return res


def _check(s, timeout_s):
    """z3's timeout is best effort for nonlinear arithmetic; obligations that can overrun it are kept out of the quick tier
    (a watchdog thread calling ctx.interrupt() was tried and made worker processes spin at exit - removed)."""
    s.set("timeout", int(timeout_s * 1000))
    t = time.time()
    try:
        r = s.check()
    except z3.Z3Exception:
        r = "unknown"
    return str(r), time.time() - t


def _probe(s, registry, ob, res, tries=3):
    leaves = jax.tree_util.tree_leaves(ob.args)
    rng = np.random.RandomState(int(os.environ.get("VERIF_SEED", "0")) + 11)
    for t in range(tries):
        s.push()
        for nm, (term, k, li, idx) in registry.items():
            ex = np.asarray(leaves[li])[idx]
            if k == "f":
                v = Fraction(float(ex)).limit_denominator(64) + (Fraction(int(rng.randint(-8, 9)), 32) if t else 0)
                s.add(term == z3.RealVal(v))
            elif k == "i":
                s.add(term == int(ex))
            else:
                s.add(term == bool(ex))
        r, dt = _check(s, 20)
        res.solver_s += dt
        res.queries.append({"q": f"negated-property, inputs pinned (probe {t})", "verdict": r, "ms": round(dt * 1e3, 1)})
        m = s.model() if r == "sat" else None
        s.pop()
        if m is not None:
            return m
    return None


def _solve(ob, pid, res, assumptions, diffs, regions, registry):
    s = z3.Solver()
    for a in assumptions:
        s.add(a)
    neg = z3.Or(*[d for _, d in diffs]) if len(diffs) > 1 else diffs[0][1]
    # vacuity guard: assumptions alone must be satisfiable
    r0, t0 = _check(s, 20)
    res.solver_s += t0
    res.queries.append({"q": "reachability(assumptions)", "verdict": r0, "ms": round(t0 * 1e3, 1)})
    if r0 == "unsat":
        res.detail = "vacuous: assumptions unsatisfiable"
        return "error"
    outside = [z3.Not(rt) for _, rt in regions]
    s.push()
    for o in outside:
        s.add(o)
    s.add(neg)
    verdict = None
    spent = 0.0
    for attempt in range(4):
        if spent > 1.5 * ob.timeout_s:
            break
        r, t = _check(s, ob.timeout_s)
        spent += t
        res.solver_s += t
        res.queries.append({"q": "negated-property" + (" outside known regions" if regions else ""), "verdict": r, "ms": round(t * 1e3, 1)})
        if r == "unsat":
            verdict = "unsat"
            break
        if r != "sat":
            # the solver could not decide the full query: look for a counterexample with the inputs pinned to
            # concrete values (still a solver query over the draw atoms; a model found this way is replayed like any other)
            m = _probe(s, registry, ob, res)
            if m is None:
                verdict = "unknown"
                res.detail = "solver: " + r + " " + s.reason_unknown()
                break
        else:
            m = s.model()
        args, assigned = model_inputs(m, registry, ob)
        which = [lbl for lbl, d in diffs if z3.is_true(m.eval(d, model_completion=True))][:4]
        differs, detail = replay_concrete(ob, args)
        if differs:
            res.reproduced = True
            res.cex = assigned
            res.detail = f"differs at {which}: {detail}"
            verdict = "sat"
            break
        # not reproduced: block this input assignment and ask again
        res.detail = f"model at {which} did not reproduce on the real code ({assigned})"
        block = [t_ != m.eval(t_, model_completion=True) for (t_, k, li, idx) in registry.values()]
        if not block:
            verdict = "sat"
            break
        s.add(z3.Or(*block))
        verdict = "sat"
    s.pop()
    if verdict != "unsat":
        return verdict
    # inside known regions: report whether the recorded finding still manifests
    for k, rt in regions:
        s.push()
        s.add(rt)
        s.add(neg)
        r, t = _check(s, ob.timeout_s)
        res.solver_s += t
        res.queries.append({"q": f"inside known region {k['id']}", "verdict": r, "ms": round(t * 1e3, 1)})
        if r == "sat":
            m = s.model()
            args, assigned = model_inputs(m, registry, ob)
            differs, detail = replay_concrete(ob, args)
            if differs:
                res.known = k["id"]
                res.cex = assigned
                res.detail = f"known finding {k['id']} reproduced: {detail}"
        s.pop()
    return "unsat"


class KnownDeviation:
    """An obligation plus the recorded deviant behaviour of a known finding.

    The primary obligation states the property.  If it is violated (reproduced on the real code) and the
    finding `finding` is listed for it in known_findings.json, the deviant obligation - the same real code
    compared with a reference that has exactly the recorded defect - must hold for all values: then the
    violation is the recorded one and nothing else (KNOWN-FINDING); any further deviation is a VIOLATION.
    """

    def __init__(self, primary: Ob, deviant: Ob, finding: str):
        self.primary, self.deviant, self.finding = primary, deviant, finding
        self.name, self.fn, self.args, self.note = primary.name, primary.fn, primary.args, primary.note

    def run(self, pid, known):
        r = decide(self.primary, pid, [])
        if r.verdict == "unknown":
            # the solver could not decide the (nonlinear) primary query: try the example inputs on the real code
            differs, detail = replay_concrete(self.primary, self.primary.args)
            if differs:
                r.verdict, r.reproduced, r.cex = "sat", True, {"inputs": "the obligation's example inputs"}
                r.detail = f"differs at the example inputs: {detail}"
        if not (r.verdict == "sat" and r.reproduced):
            return r
        listed = [k for k in known if k["id"] == self.finding and k["property"] == pid and fnmatch.fnmatch(self.name, k.get("obligation", "*"))]
        if not listed:
            return r
        r2 = decide(self.deviant, pid, [])
        r.queries += [dict(q, q="deviant-reference: " + q["q"]) for q in r2.queries]
        r.solver_s += r2.solver_s
        if r2.verdict == "unsat":
            r.known = self.finding
            r.detail = f"known finding {self.finding} reproduced ({r.detail[:160]}); real code == reference with exactly the recorded defect for all values"
        elif r2.verdict == "sat" and r2.reproduced:
            r.detail = f"violation beyond known finding {self.finding}: deviant reference also violated: {r2.detail[:200]} | primary: {r.detail[:200]}"
        else:
            # the deviant query could not be decided: inconclusive, never a violation and never a pass
            r.verdict, r.reproduced = "unknown", False
            r.detail = f"known finding {self.finding} reproduced but the deviant-reference query is {r2.verdict}: {r2.detail[:200]}"
        return r


def with_distinct_draw_keys(kinds=("normal",), at_least=2, tol=0.0):
    """custom hook: the usual leafwise equality plus 'the draws of the given kinds use pairwise distinct PRNG keys'
    (independence under the PRNG contract), decided on the Key datatype."""

    def custom(interp, sym_args, outs, out_shape):
        diffs, err = build_diffs(Ob("x", None, (), tol=tol), interp, out_shape, outs)
        assert err is None, err
        ds = [d for d in interp.draws if d.kind in kinds]
        assert len(ds) >= at_least, [d.kind for d in interp.draws]
        for i in range(len(ds)):
            for j in range(i + 1, len(ds)):
                pcs = [J.zbool(x) for x in ds[i].pc + ds[j].pc]
                diffs.append((f"draws {i} and {j} ({ds[i].kind}) share a PRNG key", z3.And(ds[i].key == ds[j].key, *pcs)))
        return diffs

    return custom

