"""dev helper: list key-consuming pjit calls / loops in each distribution's simulate jaxpr"""
import jax, jax.numpy as jnp, genjax, sys, time
sys.path.insert(0,'/verif')
from verif.props import c24
from verif import jaxsmt as J
def subs(e):
    for v in e.params.values():
        if hasattr(v,'jaxpr'): yield v.jaxpr
        elif hasattr(v,'eqns'): yield v
        elif isinstance(v,(list,tuple)):
            for b in v:
                if hasattr(b,'jaxpr'): yield b.jaxpr
def count(jaxpr):
    return sum(1+sum(count(s) for s in subs(e)) for e in jaxpr.eqns)
def walk(jaxpr, depth, out):
    for e in jaxpr.eqns:
        if e.primitive.name=='pjit' and any(J.is_key_dtype(v.aval.dtype) for v in e.invars):
            out.append((depth, e.params['name'], count(e.params['jaxpr'].jaxpr)))
        if e.primitive.name in('while','scan'):
            out.append((depth, e.primitive.name, e.params.get('length')))
        for s in subs(e): walk(s, depth+1, out)
for nm in sys.argv[1:]:
    ctor, params, kws, v, v2 = c24.T[nm]
    g=getattr(genjax,nm)
    cj=jax.make_jaxpr(lambda k,p: g.simulate(k,p).get_retval())(jax.random.key(0), params)
    out=[]; walk(cj.jaxpr,0,out)
    print(nm, count(cj.jaxpr), out)
