"""dev helper: profile one obligation:  python tools/prof_ob.py C24 'C24/simulate-score/dirichlet'"""
import sys, cProfile, pstats, time
sys.path.insert(0, '/verif')
from verif.run import load
from verif import engine
pid, name = sys.argv[1], sys.argv[2]
ob = [o for o in load(pid).obligations(sys.argv[3] if len(sys.argv) > 3 else 'quick', 0) if o.name == name][0]
pr = cProfile.Profile(); pr.enable(); t = time.time()
import signal
def stop(*a): raise KeyboardInterrupt
signal.signal(signal.SIGALRM, stop); signal.alarm(int(sys.argv[4]) if len(sys.argv) > 4 else 120)
try:
    r = engine.decide(ob, pid, engine.load_known()); print(r.verdict, r.detail[:500], r.n_eqns)
except KeyboardInterrupt:
    print("interrupted")
pr.disable(); print(time.time() - t)
pstats.Stats(pr).sort_stats('cumulative').print_stats(35)
